module verif/instrument

go 1.22
