// Command instrument rewrites numscript sources of the CURRENT working tree for the C11
// checks (stdlib only: go/parser, go/types with the source importer, go/printer):
//
//   - inserts verifrt.Yield() at every function entry and loop head (level 1) or before every
//     statement (level 2) of the files that execute during Run;
//   - rewrites every `for k, v := range m` whose operand has map type into an iteration over
//     verifrt.MapOrder(m) (keys in canonical order, permuted by the explorer), and
//     maps.Keys(m) into verifrt.MapKeys(m).
//
// Usage: instrument <repo> <outdir> <level>; writes the rewritten files under <outdir> and
// <outdir>/overlay.json. A construct it cannot handle is a loud failure (exit 2), never a
// silent skip.
package main

import (
	"bytes"
	"encoding/json"
	"fmt"
	"go/ast"
	"go/build"
	"go/importer"
	"go/parser"
	"go/printer"
	"go/token"
	"go/types"
	"os"
	"path/filepath"
	"sort"
	"strings"
)

const rtPath = "github.com/formancehq/numscript/internal/verifmc/verifrt"

type pkgSpec struct {
	dir      string   // relative to repo
	path     string   // import path
	yield    []string // files that get yield points ("*" = all non-test files)
	mapOrder bool
}

var pkgs = []pkgSpec{
	{".", "github.com/formancehq/numscript", []string{"numscript.go"}, false},
	{"internal/utils", "github.com/formancehq/numscript/internal/utils", []string{"*"}, true},
	{"internal/parser", "github.com/formancehq/numscript/internal/parser", []string{"ast.go", "range.go"}, true},
	{"internal/interpreter", "github.com/formancehq/numscript/internal/interpreter", []string{"*"}, true},
	{"internal/analysis", "github.com/formancehq/numscript/internal/analysis", nil, true},
	{"internal/lsp", "github.com/formancehq/numscript/internal/lsp", nil, true},
}

var stats = map[string]int{}

func fail(f string, a ...any) {
	fmt.Fprintf(os.Stderr, "instrument: "+f+"\n", a...)
	os.Exit(2)
}

func main() {
	if len(os.Args) != 4 {
		fail("usage: instrument <repo> <outdir> <level>")
	}
	repo, out, level := os.Args[1], os.Args[2], os.Args[3]
	if level != "1" && level != "2" {
		fail("level must be 1 or 2")
	}
	if err := os.Chdir(repo); err != nil {
		fail("%v", err)
	}
	build.Default.Dir = repo
	fset := token.NewFileSet()
	imp := importer.ForCompiler(fset, "source", nil)
	overlay := map[string]string{}
	for _, ps := range pkgs {
		dir := filepath.Join(repo, ps.dir)
		ents, err := os.ReadDir(dir)
		if err != nil {
			fail("%v", err)
		}
		var files []*ast.File
		var names []string
		for _, e := range ents {
			n := e.Name()
			if e.IsDir() || !strings.HasSuffix(n, ".go") || strings.HasSuffix(n, "_test.go") || strings.HasPrefix(n, "verif_") {
				continue
			}
			f, err := parser.ParseFile(fset, filepath.Join(dir, n), nil, parser.ParseComments)
			if err != nil {
				fail("%v", err)
			}
			files = append(files, f)
			names = append(names, n)
		}
		info := &types.Info{Types: map[ast.Expr]types.TypeAndValue{}, Uses: map[*ast.Ident]types.Object{}}
		if ps.mapOrder {
			conf := types.Config{Importer: imp, Error: func(err error) {}}
			if _, err := conf.Check(ps.path, fset, files, info); err != nil {
				// type errors in unrelated spots are tolerated only if every range operand got a type (checked below)
				stats["typecheck-warnings"]++
			}
		}
		for i, f := range files {
			wantYield := false
			for _, y := range ps.yield {
				if y == "*" || y == names[i] {
					wantYield = true
				}
			}
			changed := false
			if ps.mapOrder {
				if rewriteMaps(fset, f, info) {
					changed = true
				}
			}
			if wantYield {
				insertYields(f, level == "2")
				changed = true
			}
			if !changed {
				continue
			}
			addImport(f, rtPath)
			dropUnusedMapsImport(f)
			f.Comments = nil
			var buf bytes.Buffer
			if err := printer.Fprint(&buf, fset, f); err != nil {
				fail("print %s: %v", names[i], err)
			}
			dst := filepath.Join(out, ps.dir, names[i])
			os.MkdirAll(filepath.Dir(dst), 0o755)
			if err := os.WriteFile(dst, buf.Bytes(), 0o644); err != nil {
				fail("%v", err)
			}
			overlay[filepath.Join(dir, names[i])] = dst
		}
	}
	// marker compiled into the runtime package: lets a check tell "the build is not
	// instrumented" from "the instrumented tree has no map iteration left"
	marker := filepath.Join(out, "zz_instrumented.go")
	os.WriteFile(marker, []byte(fmt.Sprintf("package verifrt\n\nfunc init() {\n\tInstrumented = true\n\tMapRangeSites = %d\n}\n", stats["map-range"]+stats["maps-keys"])), 0o644)
	overlay[filepath.Join(repo, "internal", "verifmc", "verifrt", "zz_instrumented.go")] = marker
	b, _ := json.MarshalIndent(map[string]any{"Replace": overlay}, "", " ")
	if err := os.WriteFile(filepath.Join(out, "overlay.json"), b, 0o644); err != nil {
		fail("%v", err)
	}
	var ks []string
	for k := range stats {
		ks = append(ks, k)
	}
	sort.Strings(ks)
	for _, k := range ks {
		fmt.Printf("%s=%d ", k, stats[k])
	}
	fmt.Println()
}

func addImport(f *ast.File, path string) {
	for _, im := range f.Imports {
		if im.Path.Value == `"`+path+`"` {
			return
		}
	}
	spec := &ast.ImportSpec{Path: &ast.BasicLit{Kind: token.STRING, Value: `"` + path + `"`}}
	decl := &ast.GenDecl{Tok: token.IMPORT, Specs: []ast.Spec{spec}}
	f.Decls = append([]ast.Decl{decl}, f.Decls...)
	f.Imports = append(f.Imports, spec)
}

func yieldStmt() ast.Stmt { return yieldCall("Yield") }

func yieldCall(name string) ast.Stmt {
	return &ast.ExprStmt{X: &ast.CallExpr{Fun: &ast.SelectorExpr{X: ast.NewIdent("verifrt"), Sel: ast.NewIdent(name)}}}
}

func insertYields(f *ast.File, everyStmt bool) {
	ast.Inspect(f, func(n ast.Node) bool {
		switch n := n.(type) {
		case *ast.FuncDecl:
			if n.Body != nil {
				n.Body.List = append([]ast.Stmt{yieldStmt()}, n.Body.List...)
				stats["yield-func"]++
			}
		case *ast.FuncLit:
			n.Body.List = append([]ast.Stmt{yieldStmt()}, n.Body.List...)
			stats["yield-func"]++
		case *ast.ForStmt:
			n.Body.List = append([]ast.Stmt{yieldStmt()}, n.Body.List...)
			stats["yield-loop"]++
		case *ast.RangeStmt:
			n.Body.List = append([]ast.Stmt{yieldStmt()}, n.Body.List...)
			stats["yield-loop"]++
		}
		return true
	})
	if !everyStmt {
		return
	}
	// level 2: before every statement of every statement list (never between case clauses)
	var lists func(n ast.Node) bool
	lists = func(n ast.Node) bool {
		switch n := n.(type) {
		case *ast.SwitchStmt:
			for _, c := range n.Body.List {
				cc := c.(*ast.CaseClause)
				cc.Body = interleave(cc.Body)
				for _, s := range cc.Body {
					ast.Inspect(s, lists)
				}
			}
			if n.Init != nil {
				ast.Inspect(n.Init, lists)
			}
			return false
		case *ast.TypeSwitchStmt:
			for _, c := range n.Body.List {
				cc := c.(*ast.CaseClause)
				cc.Body = interleave(cc.Body)
				for _, s := range cc.Body {
					ast.Inspect(s, lists)
				}
			}
			return false
		case *ast.SelectStmt:
			return false
		case *ast.BlockStmt:
			n.List = interleave(n.List)
		}
		return true
	}
	ast.Inspect(f, lists)
}

func isYield(s ast.Stmt) bool {
	es, ok := s.(*ast.ExprStmt)
	if !ok {
		return false
	}
	c, ok := es.X.(*ast.CallExpr)
	if !ok {
		return false
	}
	se, ok := c.Fun.(*ast.SelectorExpr)
	if !ok {
		return false
	}
	x, ok := se.X.(*ast.Ident)
	return ok && x.Name == "verifrt" && (se.Sel.Name == "Yield" || se.Sel.Name == "Yield2")
}

func interleave(list []ast.Stmt) []ast.Stmt {
	var out []ast.Stmt
	for i, s := range list {
		if !isYield(s) && !(i > 0 && isYield(list[i-1])) {
			if _, isLabel := s.(*ast.LabeledStmt); !isLabel {
				out = append(out, yieldCall("Yield2"))
				stats["yield-stmt"]++
			}
		}
		out = append(out, s)
	}
	return out
}

func simpleOperand(e ast.Expr) bool {
	switch e := e.(type) {
	case *ast.Ident:
		return true
	case *ast.SelectorExpr:
		return simpleOperand(e.X)
	}
	return false
}

func rewriteMaps(fset *token.FileSet, f *ast.File, info *types.Info) bool {
	changed := false
	ast.Inspect(f, func(n ast.Node) bool {
		switch n := n.(type) {
		case *ast.RangeStmt:
			tv, ok := info.Types[n.X]
			if !ok || tv.Type == nil {
				fail("%s: no type information for range operand", fset.Position(n.Pos()))
			}
			if _, isMap := tv.Type.Underlying().(*types.Map); !isMap {
				return true
			}
			if n.Tok != token.DEFINE || !simpleOperand(n.X) {
				fail("%s: map range that the rewrite cannot handle", fset.Position(n.Pos()))
			}
			keyName := "verifK"
			if id, ok := n.Key.(*ast.Ident); ok && id.Name != "_" {
				keyName = id.Name
			}
			var pre []ast.Stmt
			lookup := &ast.IndexExpr{X: n.X, Index: ast.NewIdent(keyName)}
			valName := "_"
			if id, ok := n.Value.(*ast.Ident); ok && id != nil && id.Name != "_" {
				valName = id.Name
			}
			// v, verifOk := m[k]; if !verifOk { continue }
			pre = append(pre, &ast.AssignStmt{Lhs: []ast.Expr{ast.NewIdent(valName), ast.NewIdent("verifOk")}, Tok: token.DEFINE, Rhs: []ast.Expr{lookup}})
			pre = append(pre, &ast.IfStmt{Cond: &ast.UnaryExpr{Op: token.NOT, X: ast.NewIdent("verifOk")}, Body: &ast.BlockStmt{List: []ast.Stmt{&ast.BranchStmt{Tok: token.CONTINUE}}}})
			n.Body.List = append(pre, n.Body.List...)
			n.X = &ast.CallExpr{Fun: &ast.SelectorExpr{X: ast.NewIdent("verifrt"), Sel: ast.NewIdent("MapOrder")}, Args: []ast.Expr{n.X}}
			n.Key = ast.NewIdent("_")
			n.Value = ast.NewIdent(keyName)
			stats["map-range"]++
			changed = true
		case *ast.CallExpr:
			if se, ok := n.Fun.(*ast.SelectorExpr); ok {
				if x, ok := se.X.(*ast.Ident); ok && x.Name == "maps" && (se.Sel.Name == "Keys") {
					n.Fun = &ast.SelectorExpr{X: ast.NewIdent("verifrt"), Sel: ast.NewIdent("MapKeys")}
					stats["maps-keys"]++
					changed = true
				}
			}
		}
		return true
	})
	return changed
}

// dropUnusedMapsImport removes the import of a package named `maps` once the rewrite has
// replaced its last use (an unused import does not compile).
func dropUnusedMapsImport(f *ast.File) {
	used := false
	ast.Inspect(f, func(n ast.Node) bool {
		if se, ok := n.(*ast.SelectorExpr); ok {
			if x, ok := se.X.(*ast.Ident); ok && x.Name == "maps" {
				used = true
			}
		}
		return true
	})
	if used {
		return
	}
	for _, d := range f.Decls {
		gd, ok := d.(*ast.GenDecl)
		if !ok || gd.Tok != token.IMPORT {
			continue
		}
		var keep []ast.Spec
		for _, sp := range gd.Specs {
			is := sp.(*ast.ImportSpec)
			p := strings.Trim(is.Path.Value, `"`)
			if (is.Name == nil && (p == "maps" || strings.HasSuffix(p, "/maps"))) || (is.Name != nil && is.Name.Name == "maps") {
				continue
			}
			keep = append(keep, sp)
		}
		gd.Specs = keep
	}
}
