#!/usr/bin/env python3
"""mkoverlay.py <harness dir> <repo> <out.json> [extra.json ...]
Maps every .go file under <harness dir> to <repo>/internal/verifmc/<rel path>, so that the
harness is compiled as (virtual) packages of the numscript module by `go build -overlay`.
Extra JSON files of the form {"Replace": {...}} are merged in (used by instrumented builds)."""
import json, os, sys

harness, repo, out = sys.argv[1], sys.argv[2], sys.argv[3]
rep = {}
for root, dirs, files in os.walk(harness):
    for f in files:
        if f.endswith(".go"):
            src = os.path.join(root, f)
            rel = os.path.relpath(src, harness)
            rep[os.path.join(repo, "internal", "verifmc", rel)] = src
# shims: files added to real packages of the repository (build tag `verif`)
shims = os.path.join(os.path.dirname(harness), "shims")
for root, dirs, files in os.walk(shims):
    for f in files:
        if f.endswith(".go"):
            src = os.path.join(root, f)
            rep[os.path.join(repo, os.path.relpath(src, shims))] = src
for extra in sys.argv[4:]:
    with open(extra) as fh:
        rep.update(json.load(fh)["Replace"])
with open(out, "w") as fh:
    json.dump({"Replace": rep}, fh, indent=1)
