#!/usr/bin/env python3
"""Rewrites refactorings/SUMMARY.md (the table part) from refactorings/*/meta.json."""
import json, glob, os, re
rows=[]
for d in sorted(glob.glob('/verif/refactorings/*/')):
    name=os.path.basename(d.rstrip('/'))
    try: m=json.load(open(d+'meta.json'))
    except Exception: continue
    runs=m.get('checks_run') or []
    ids=[re.sub(r'^CHECK (\S+) .*',r'\1',l) for l in runs if l.startswith('CHECK')]
    alarms=[l for l in runs if l.startswith('CHECK') and 'exit=0' not in l]
    verdict=('silent (%s)'%", ".join(ids)) if not alarms and ids else ('ALARM: '+"; ".join(alarms) if alarms else 'not run')
    if any('patch-does-not-apply' in l for l in runs): verdict='does not apply to the current HEAD'
    files=",".join(os.path.basename(f) for f in (m.get('files_changed') or []))
    what=(m.get('summary') or m.get('what') or m.get('description') or '').replace('\n',' ').replace('|','/')
    if len(what)>200: what=what[:200]
    rows.append("| %s | %s | %s | %s |"%(name,files,what,verdict))
p='/verif/refactorings/SUMMARY.md'
s=open(p).read()
head=s[:s.index('| change | files |')]
open(p,'w').write(head+"| change | files | what | checks run |\n|---|---|---|---|\n"+"\n".join(rows)+"\n")
print(len(rows),"rows;", sum('ALARM' in r for r in rows),"alarms")
