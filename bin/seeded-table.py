#!/usr/bin/env python3
"""Prints the markdown detection table of DESIGN.md §13 from seeded/*/meta.json."""
import json, glob, os, re
rows=[]
for d in sorted(glob.glob('/verif/seeded/*/')):
    name=os.path.basename(d.rstrip('/'))
    try: m=json.load(open(d+'meta.json'))
    except Exception: continue
    res=" ".join(m.get('final_checks_run') or m.get('checks_run') or [])
    caught='caught' if 'RESULT caught' in res else ('obsolete' if m.get('note','').find('no longer breaks')>=0 else ('not a violation by the letter' if m.get('note','').find('outside the letter')>=0 else 'missed'))
    sig=''
    fr=m.get('final_first_report') or m.get('first_report') or []
    if fr:
        try: sig=json.loads(fr[0]).get('sig','')
        except Exception: sig=''
    files=",".join(os.path.basename(f) for f in (m.get('files_changed') or []))
    breaks=(m.get('breaks') or '').replace('\n',' ').replace('|','/')
    if len(breaks)>170: breaks=breaks[:167]+'...'
    rows.append("| %s | %s | %s | %s | `%s` |"%(name,files,breaks,caught,sig[:70]))
print("| change | files | what it breaks | own property's quick check | first signature reported |")
print("|---|---|---|---|---|")
print("\n".join(rows))
