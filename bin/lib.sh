# Sourced by every script in /verif/bin. Offline Go environment + overlay build helpers.
export GOFLAGS=-mod=mod GOPROXY=off GOSUMDB=off GOTOOLCHAIN=local
export VERIF_ROOT="${VERIF_ROOT:-$(cd "$(dirname "${BASH_SOURCE[0]}")/.." && pwd)}"
export REPO="${REPO:-/repo}"

# mkoverlay <builddir> : writes <builddir>/overlay.json mapping /verif/harness/** into
# $REPO/internal/verifmc/** (virtual packages of the numscript module; /repo is never written).
mkoverlay() {
  local b="$1"
  mkdir -p "$b"
  python3 "$VERIF_ROOT/bin/mkoverlay.py" "$VERIF_ROOT/harness" "$REPO" "$b/overlay.json" "${@:2}"
}

# buildmc <builddir> : builds the model-checker binary from $REPO's current working tree.
buildmc() {
  local b="$1"
  local extra=()
  [ -f "$b/extra-overlay.json" ] && extra=("$b/extra-overlay.json")
  mkoverlay "$b" "${extra[@]}" || return 2
  (cd "$REPO" && go build -tags verif -overlay "$b/overlay.json" -o "$b/mc" ./internal/verifmc/cmd/mc) || return 2
}
