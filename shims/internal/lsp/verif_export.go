//go:build verif

package lsp

import (
	"reflect"
	"unsafe"
)

// VerifDocuments exposes the server's document store (uri -> latest text) to the C19
// conformance check. It is harness-only (injected through the build overlay, never
// committed to the repository) and finds the store by shape, not by name, so that renaming
// the field or switching to pointers does not break the check: the first map field of State
// whose keys are strings and whose values are (pointers to) structs with a string field Text.
// ok is false when no such field exists; the conformance clause is then skipped.
func (state *State) VerifDocuments() (docs map[string]string, ok bool) {
	sv := reflect.ValueOf(state).Elem()
	for i := 0; i < sv.NumField(); i++ {
		f := sv.Field(i)
		if f.Kind() != reflect.Map || f.Type().Key().Kind() != reflect.String {
			continue
		}
		et := f.Type().Elem()
		if et.Kind() == reflect.Ptr {
			et = et.Elem()
		}
		if et.Kind() != reflect.Struct {
			continue
		}
		tf, has := et.FieldByName("Text")
		if !has || tf.Type.Kind() != reflect.String {
			continue
		}
		// make the unexported field readable
		f = reflect.NewAt(f.Type(), unsafe.Pointer(f.UnsafeAddr())).Elem()
		docs = map[string]string{}
		it := f.MapRange()
		for it.Next() {
			v := it.Value()
			if v.Kind() == reflect.Ptr {
				if v.IsNil() {
					continue
				}
				v = v.Elem()
			}
			docs[it.Key().String()] = v.FieldByName("Text").String()
		}
		return docs, true
	}
	return nil, false
}
