//go:build verif

package lsp

// VerifDocuments exposes the server's document store to the C19 conformance check
// (harness-only; injected through the build overlay, never committed to the repository).
func (state *State) VerifDocuments() map[string]string {
	out := map[string]string{}
	for uri, doc := range state.documents {
		out[string(uri)] = doc.Text
	}
	return out
}
