// Command mc is the model-checking harness binary (coordinator, worker and replay modes).
package main

import (
	"os"

	"github.com/formancehq/numscript/internal/verifmc/mc"
	"github.com/formancehq/numscript/internal/verifmc/props"
)

func main() {
	if os.Getenv("VERIF_RACE_PASS") == "1" {
		props.RacePass() // body of the free-running -race build (C11)
		return
	}
	mc.Main()
}
