// Command mc is the model-checking harness binary (coordinator, worker and replay modes).
package main

import (
	"github.com/formancehq/numscript/internal/verifmc/mc"
	_ "github.com/formancehq/numscript/internal/verifmc/props"
)

func main() { mc.Main() }
