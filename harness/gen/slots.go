package gen

// Slot: one expression position of a program, with the type the language requires there and
// a setter, so that type-/name-breaking edits can be enumerated mechanically.
type Slot struct {
	Path  string // e.g. "stmt0.src.cap"
	Want  string // account | monetary | asset | number | portion | string | any
	InDst bool   // inside a destination (positions the interpreter may legitimately skip)
	Get   func() Expr
	Set   func(Expr)
}

// AllotSlot: a portion position of an allotment (syntactically restricted to a portion
// literal, a variable or `remaining`).
type AllotSlot struct {
	Path string
	Get  func() Allot
	Set  func(Allot)
}

func exprSlots(path, want string, inDst bool, get func() Expr, set func(Expr), out *[]Slot) {
	*out = append(*out, Slot{path, want, inDst, get, set})
	switch e := get().(type) {
	case *MonLit:
		exprSlots(path+".asset", "asset", inDst, func() Expr { return e.Asset }, func(x Expr) { e.Asset = x }, out)
		exprSlots(path+".amt", "number", inDst, func() Expr { return e.Amt }, func(x Expr) { e.Amt = x }, out)
	case *Infix:
		exprSlots(path+".l", want, inDst, func() Expr { return e.L }, func(x Expr) { e.L = x }, out)
		exprSlots(path+".r", want, inDst, func() Expr { return e.R }, func(x Expr) { e.R = x }, out)
	}
}

var sig = map[string][]string{
	"set_tx_meta":      {"string", "any"},
	"set_account_meta": {"account", "string", "any"},
	"meta":             {"account", "string"},
	"balance":          {"account", "asset"},
	"overdraft":        {"account", "asset"},
}

func callSlots(path string, c *Call, out *[]Slot) {
	ps := sig[c.Name]
	for i := range c.Args {
		i := i
		want := "any"
		if i < len(ps) {
			want = ps[i]
		}
		exprSlots(path+".arg"+string(rune('0'+i)), want, false, func() Expr { return c.Args[i] }, func(x Expr) { c.Args[i] = x }, out)
	}
}

func srcSlots(path string, s Source, out *[]Slot, aout *[]AllotSlot) {
	switch s := s.(type) {
	case *SrcAccount:
		exprSlots(path+".acct", "account", false, func() Expr { return s.E }, func(x Expr) { s.E = x }, out)
	case *SrcOverdraft:
		exprSlots(path+".addr", "account", false, func() Expr { return s.Addr }, func(x Expr) { s.Addr = x }, out)
		if s.Bounded != nil {
			exprSlots(path+".bound", "monetary", false, func() Expr { return s.Bounded }, func(x Expr) { s.Bounded = x }, out)
		}
	case *SrcInorder:
		for i, x := range s.Srcs {
			srcSlots(path+"."+string(rune('0'+i)), x, out, aout)
		}
	case *SrcCapped:
		exprSlots(path+".cap", "monetary", false, func() Expr { return s.Cap }, func(x Expr) { s.Cap = x }, out)
		srcSlots(path+".from", s.From, out, aout)
	case *SrcAllot:
		for i, it := range s.Items {
			it := it
			*aout = append(*aout, AllotSlot{path + ".allot" + string(rune('0'+i)), func() Allot { return it.A }, func(a Allot) { it.A = a }})
			srcSlots(path+".item"+string(rune('0'+i)), it.From, out, aout)
		}
	}
}

func kodSlots(path string, k KoD, out *[]Slot, aout *[]AllotSlot) {
	if t, ok := k.(*To); ok {
		dstSlots(path, t.D, out, aout)
	}
}

func dstSlots(path string, d Dest, out *[]Slot, aout *[]AllotSlot) {
	switch d := d.(type) {
	case *DstAccount:
		exprSlots(path+".acct", "account", true, func() Expr { return d.E }, func(x Expr) { d.E = x }, out)
	case *DstInorder:
		for i, c := range d.Clauses {
			c := c
			exprSlots(path+".cap"+string(rune('0'+i)), "monetary", true, func() Expr { return c.Cap }, func(x Expr) { c.Cap = x }, out)
			kodSlots(path+".to"+string(rune('0'+i)), c.To, out, aout)
		}
		kodSlots(path+".rem", d.Remaining, out, aout)
	case *DstAllot:
		for i, it := range d.Items {
			it := it
			*aout = append(*aout, AllotSlot{path + ".allot" + string(rune('0'+i)), func() Allot { return it.A }, func(a Allot) { it.A = a }})
			kodSlots(path+".item"+string(rune('0'+i)), it.To, out, aout)
		}
	}
}

// Slots lists every expression position and every allotment position of the program.
func Slots(p *Program) ([]Slot, []AllotSlot) {
	var out []Slot
	var aout []AllotSlot
	for i, d := range p.Vars {
		if d.Origin != nil {
			callSlots("var"+string(rune('0'+i)), d.Origin, &out)
		}
	}
	for i, st := range p.Stmts {
		path := "stmt" + string(rune('0'+i))
		switch s := st.(type) {
		case *Send:
			switch sv := s.Sent.(type) {
			case *SentLit:
				exprSlots(path+".sent", "monetary", false, func() Expr { return sv.E }, func(x Expr) { sv.E = x }, &out)
			case *SentAll:
				exprSlots(path+".sentall", "asset", false, func() Expr { return sv.Asset }, func(x Expr) { sv.Asset = x }, &out)
			}
			srcSlots(path+".src", s.Src, &out, &aout)
			dstSlots(path+".dst", s.Dst, &out, &aout)
		case *Save:
			switch sv := s.Sent.(type) {
			case *SentLit:
				exprSlots(path+".sent", "monetary", false, func() Expr { return sv.E }, func(x Expr) { sv.E = x }, &out)
			case *SentAll:
				exprSlots(path+".sentall", "asset", false, func() Expr { return sv.Asset }, func(x Expr) { sv.Asset = x }, &out)
			}
			exprSlots(path+".acct", "account", false, func() Expr { return s.Acct }, func(x Expr) { s.Acct = x }, &out)
		case *Call:
			callSlots(path, s, &out)
		}
	}
	return out, aout
}
