// Package gen holds the harness's own AST of numscript ("GAst"), a span-recording token
// printer and grammar-complete generators. It never imports numscript's parser.
package gen

type Expr interface{ isExpr() }

type (
	Var        struct{ Name string }   // $name
	AssetLit   struct{ S string }      // USD, EUR/2
	StrLit     struct{ S string }      // raw text between the quotes
	AcctLit    struct{ Name string }   // without '@'
	NumLit     struct{ Text string }   // decimal digits, optional leading '-'
	MonLit     struct{ Asset, Amt Expr }
	PortionLit struct{ Text string }   // "1/2", "1 / 2", "50%", "12.5%"
	Infix      struct {
		Op   string // "+" | "-"
		L, R Expr
	}
)

func (*Var) isExpr()        {}
func (*AssetLit) isExpr()   {}
func (*StrLit) isExpr()     {}
func (*AcctLit) isExpr()    {}
func (*NumLit) isExpr()     {}
func (*MonLit) isExpr()     {}
func (*PortionLit) isExpr() {}
func (*Infix) isExpr()      {}

// Allot is *PortionLit, *Var or *Remaining.
type Allot interface{ isAllot() }
type Remaining struct{}

func (*PortionLit) isAllot() {}
func (*Var) isAllot()        {}
func (*Remaining) isAllot()  {}

type Source interface{ isSource() }
type (
	SrcAccount   struct{ E Expr }
	SrcOverdraft struct {
		Addr    Expr
		Bounded Expr // nil = unbounded
	}
	SrcInorder   struct{ Srcs []Source }
	SrcAllotItem struct {
		A    Allot
		From Source
	}
	SrcAllot  struct{ Items []*SrcAllotItem }
	SrcCapped struct {
		Cap  Expr
		From Source
	}
)

func (*SrcAccount) isSource()   {}
func (*SrcOverdraft) isSource() {}
func (*SrcInorder) isSource()   {}
func (*SrcAllot) isSource()     {}
func (*SrcCapped) isSource()    {}

// KoD is *Kept or *To.
type KoD interface{ isKoD() }
type Kept struct{}
type To struct{ D Dest }

func (*Kept) isKoD() {}
func (*To) isKoD()   {}

type Dest interface{ isDest() }
type (
	DstAccount struct{ E Expr }
	DstClause  struct {
		Cap Expr
		To  KoD
	}
	DstInorder struct {
		Clauses   []*DstClause
		Remaining KoD
	}
	DstAllotItem struct {
		A  Allot
		To KoD
	}
	DstAllot struct{ Items []*DstAllotItem }
)

func (*DstAccount) isDest() {}
func (*DstInorder) isDest() {}
func (*DstAllot) isDest()   {}

type Sent interface{ isSent() }
type SentLit struct{ E Expr }
type SentAll struct{ Asset Expr }

func (*SentLit) isSent() {}
func (*SentAll) isSent() {}

type Stmt interface{ isStmt() }
type (
	Send struct {
		Sent Sent
		Src  Source
		Dst  Dest
	}
	Save struct {
		Sent Sent
		Acct Expr
	}
	Call struct {
		Name string
		Args []Expr
	}
)

func (*Send) isStmt() {}
func (*Save) isStmt() {}
func (*Call) isStmt() {}

type TypeName struct{ Name string }
type VarDecl struct {
	Type   *TypeName
	Name   *Var
	Origin *Call
}

type Program struct {
	HasVars bool // a (possibly empty) vars block is written
	Vars    []*VarDecl
	Stmts   []Stmt
}

// Convenience constructors
func V(n string) *Var            { return &Var{Name: n} }
func Acct(n string) *AcctLit     { return &AcctLit{Name: n} }
func Asset(s string) *AssetLit   { return &AssetLit{S: s} }
func Num(t string) *NumLit       { return &NumLit{Text: t} }
func Str(s string) *StrLit       { return &StrLit{S: s} }
func Port(t string) *PortionLit  { return &PortionLit{Text: t} }
func Mon(asset, amt string) *MonLit {
	return &MonLit{Asset: Asset(asset), Amt: Num(amt)}
}
