package gen

import (
	"strings"
	"unicode/utf8"
)

// NodeSpan: the token interval [First, Last] (inclusive) that a node was printed as.
type NodeSpan struct {
	Node        any
	Kind        string
	First, Last int
}

type Printed struct {
	Toks  []string
	Spans []NodeSpan // in pre-order of the printer's traversal
}

type printer struct{ p *Printed }

func (pr *printer) tok(s string) int {
	pr.p.Toks = append(pr.p.Toks, s)
	return len(pr.p.Toks) - 1
}

func (pr *printer) open(n any, kind string) int {
	pr.p.Spans = append(pr.p.Spans, NodeSpan{Node: n, Kind: kind, First: len(pr.p.Toks)})
	return len(pr.p.Spans) - 1
}
func (pr *printer) close(i int) { pr.p.Spans[i].Last = len(pr.p.Toks) - 1 }

// Print converts a program to its token sequence and records the span of every node that
// carries a range in numscript's AST.
func Print(prog *Program) *Printed {
	pr := &printer{p: &Printed{}}
	if prog.HasVars || len(prog.Vars) > 0 {
		pr.tok("vars")
		pr.tok("{")
		for _, d := range prog.Vars {
			pr.varDecl(d)
		}
		pr.tok("}")
	}
	for _, s := range prog.Stmts {
		pr.stmt(s)
	}
	return pr.p
}

func (pr *printer) varDecl(d *VarDecl) {
	i := pr.open(d, "VarDecl")
	j := pr.open(d.Type, "TypeDecl")
	pr.tok(d.Type.Name)
	pr.close(j)
	j = pr.open(d.Name, "VarName")
	pr.tok("$" + d.Name.Name)
	pr.close(j)
	if d.Origin != nil {
		pr.tok("=")
		pr.call(d.Origin)
	}
	pr.close(i)
}

func (pr *printer) call(c *Call) {
	i := pr.open(c, "FnCall")
	j := pr.open(c, "FnCaller")
	pr.tok(c.Name)
	pr.close(j)
	pr.tok("(")
	for k, a := range c.Args {
		if k > 0 {
			pr.tok(",")
		}
		pr.expr(a)
	}
	pr.tok(")")
	pr.close(i)
}

func (pr *printer) expr(e Expr) {
	switch e := e.(type) {
	case *Var:
		i := pr.open(e, "Variable")
		pr.tok("$" + e.Name)
		pr.close(i)
	case *AssetLit:
		i := pr.open(e, "AssetLiteral")
		pr.tok(e.S)
		pr.close(i)
	case *StrLit:
		i := pr.open(e, "StringLiteral")
		pr.tok("\"" + e.S + "\"")
		pr.close(i)
	case *AcctLit:
		i := pr.open(e, "AccountLiteral")
		pr.tok("@" + e.Name)
		pr.close(i)
	case *NumLit:
		i := pr.open(e, "NumberLiteral")
		pr.tok(e.Text)
		pr.close(i)
	case *PortionLit:
		i := pr.open(e, "RatioLiteral")
		pr.tok(e.Text)
		pr.close(i)
	case *MonLit:
		i := pr.open(e, "MonetaryLiteral")
		pr.tok("[")
		pr.expr(e.Asset)
		pr.expr(e.Amt)
		pr.tok("]")
		pr.close(i)
	case *Infix:
		i := pr.open(e, "BinaryInfix")
		pr.expr(e.L)
		pr.tok(e.Op)
		pr.expr(e.R)
		pr.close(i)
	default:
		panic("gen.Print: unknown expr")
	}
}

func (pr *printer) allot(a Allot) {
	switch a := a.(type) {
	case *PortionLit:
		pr.expr(a)
	case *Var:
		pr.expr(a)
	case *Remaining:
		i := pr.open(a, "RemainingAllotment")
		pr.tok("remaining")
		pr.close(i)
	}
}

func (pr *printer) sent(s Sent) {
	switch s := s.(type) {
	case *SentLit:
		i := pr.open(s, "SentValueLiteral")
		pr.expr(s.E)
		pr.close(i)
	case *SentAll:
		i := pr.open(s, "SentValueAll")
		pr.tok("[")
		pr.expr(s.Asset)
		pr.tok("*")
		pr.tok("]")
		pr.close(i)
	}
}

func (pr *printer) source(s Source) {
	switch s := s.(type) {
	case *SrcAccount:
		pr.expr(s.E) // SourceAccount embeds its expression: same range
	case *SrcOverdraft:
		i := pr.open(s, "SourceOverdraft")
		pr.expr(s.Addr)
		pr.tok("allowing")
		if s.Bounded == nil {
			pr.tok("unbounded")
			pr.tok("overdraft")
		} else {
			pr.tok("overdraft")
			pr.tok("up")
			pr.tok("to")
			pr.expr(s.Bounded)
		}
		pr.close(i)
	case *SrcInorder:
		i := pr.open(s, "SourceInorder")
		pr.tok("{")
		for _, x := range s.Srcs {
			pr.source(x)
		}
		pr.tok("}")
		pr.close(i)
	case *SrcAllot:
		i := pr.open(s, "SourceAllotment")
		pr.tok("{")
		for _, it := range s.Items {
			j := pr.open(it, "SourceAllotmentItem")
			pr.allot(it.A)
			pr.tok("from")
			pr.source(it.From)
			pr.close(j)
		}
		pr.tok("}")
		pr.close(i)
	case *SrcCapped:
		i := pr.open(s, "SourceCapped")
		pr.tok("max")
		pr.expr(s.Cap)
		pr.tok("from")
		pr.source(s.From)
		pr.close(i)
	default:
		panic("gen.Print: unknown source")
	}
}

func (pr *printer) kod(k KoD) {
	switch k := k.(type) {
	case *Kept:
		i := pr.open(k, "DestinationKept")
		pr.tok("kept")
		pr.close(i)
	case *To:
		pr.tok("to")
		pr.dest(k.D)
	}
}

func (pr *printer) dest(d Dest) {
	switch d := d.(type) {
	case *DstAccount:
		pr.expr(d.E)
	case *DstInorder:
		i := pr.open(d, "DestinationInorder")
		pr.tok("{")
		for _, c := range d.Clauses {
			j := pr.open(c, "DestinationInorderClause")
			pr.tok("max")
			pr.expr(c.Cap)
			pr.kod(c.To)
			pr.close(j)
		}
		pr.tok("remaining")
		pr.kod(d.Remaining)
		pr.tok("}")
		pr.close(i)
	case *DstAllot:
		i := pr.open(d, "DestinationAllotment")
		pr.tok("{")
		for _, it := range d.Items {
			j := pr.open(it, "DestinationAllotmentItem")
			pr.allot(it.A)
			pr.kod(it.To)
			pr.close(j)
		}
		pr.tok("}")
		pr.close(i)
	default:
		panic("gen.Print: unknown destination")
	}
}

func (pr *printer) stmt(s Stmt) {
	switch s := s.(type) {
	case *Send:
		i := pr.open(s, "SendStatement")
		pr.tok("send")
		pr.sent(s.Sent)
		pr.tok("(")
		pr.tok("source")
		pr.tok("=")
		pr.source(s.Src)
		pr.tok("destination")
		pr.tok("=")
		pr.dest(s.Dst)
		pr.tok(")")
		pr.close(i)
	case *Save:
		i := pr.open(s, "SaveStatement")
		pr.tok("save")
		pr.sent(s.Sent)
		pr.tok("from")
		pr.expr(s.Acct)
		pr.close(i)
	case *Call:
		pr.call(s)
	}
}

// Text renders the tokens separated by single spaces (always lexically safe for the tokens
// this printer emits) with a trailing newline.
func (p *Printed) Text() string { return strings.Join(p.Toks, " ") + "\n" }

// Source is the canonical one-line text of a program.
func Text(prog *Program) string { return Print(prog).Text() }

type Pos struct{ Line, Char int }

// Render lays the tokens out with seps[i] before token i (len(seps) == len(Toks)+1, the last
// one trails) and returns the text and the start/end position (in characters) of each token.
func (p *Printed) Render(seps []string) (string, []Pos, []Pos) {
	var b strings.Builder
	line, col := 0, 0
	adv := func(s string) {
		b.WriteString(s)
		for len(s) > 0 {
			r, sz := utf8.DecodeRuneInString(s)
			s = s[sz:]
			if r == '\n' {
				line++
				col = 0
			} else {
				col++
			}
		}
	}
	starts := make([]Pos, len(p.Toks))
	ends := make([]Pos, len(p.Toks))
	for i, t := range p.Toks {
		adv(seps[i])
		starts[i] = Pos{line, col}
		adv(t)
		ends[i] = Pos{line, col}
	}
	adv(seps[len(p.Toks)])
	return b.String(), starts, ends
}

// DefaultSeps is the single-space layout.
func (p *Printed) DefaultSeps() []string {
	s := make([]string, len(p.Toks)+1)
	for i := 1; i < len(p.Toks); i++ {
		s[i] = " "
	}
	return s
}
