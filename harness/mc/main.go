package mc

import (
	"encoding/json"
	"fmt"
	"os"
	"os/exec"
	"path/filepath"
	"regexp"
	"runtime"
	"sort"
	"strconv"
	"strings"
	"sync"
	"time"
)

type Property struct {
	ID          string
	Title       string
	Rule        string   // how cases are enumerated; what makes one non-trivial / distinct
	Assumptions []string // what the check assumes or trusts
	QuickBudget time.Duration
	ThoroBudget time.Duration
	UseJournal  bool
	Run         func(w *Worker)
	// Extra lets a property add keys to the coverage object of its evidence file.
	Extra func(tier string) map[string]any
}

var registry = map[string]*Property{}

// Oneshot, if set, is the body of `mc oneshot`: it executes exactly one case read from stdin in
// a fresh process (used as a history-free reference by C11).
var Oneshot func()

func Register(p *Property) { registry[p.ID] = p }

type KnownFinding struct {
	Status      string `json:"status"` // "known" | "fixed"
	Property    string `json:"property"`
	Signature   string `json:"signature"` // exact, or "re:<regexp>"
	Description string `json:"description"`
	Witness     any    `json:"witness,omitempty"`
	Commit      string `json:"commit,omitempty"`
}

func root() string {
	if r := os.Getenv("VERIF_ROOT"); r != "" {
		return r
	}
	return "/verif"
}

// outRoot: where evidence/ and replays/ are written (VERIF_OUT redirects them when the checks
// are run against a scratch copy of the repository, e.g. to evaluate a seeded mutant).
func outRoot() string {
	if r := os.Getenv("VERIF_OUT"); r != "" {
		return r
	}
	return root()
}

func buildDir() string {
	if r := os.Getenv("VERIF_BUILD"); r != "" {
		return r
	}
	return filepath.Join(root(), "build", "adhoc")
}

func loadKnown() []KnownFinding {
	b, err := os.ReadFile(filepath.Join(root(), "known_findings.json"))
	if err != nil {
		return nil
	}
	var k []KnownFinding
	if err := json.Unmarshal(b, &k); err != nil {
		fmt.Fprintln(os.Stderr, "known_findings.json unreadable:", err)
		os.Exit(2)
	}
	return k
}

func matchKnown(k []KnownFinding, prop, sig string) *KnownFinding {
	for i := range k {
		if k[i].Status != "known" || k[i].Property != prop {
			continue
		}
		if strings.HasPrefix(k[i].Signature, "re:") {
			if regexp.MustCompile("^(?:" + k[i].Signature[3:] + ")$").MatchString(sig) {
				return &k[i]
			}
		} else if k[i].Signature == sig {
			return &k[i]
		}
	}
	return nil
}

func Main() {
	if len(os.Args) < 2 {
		usage()
	}
	switch os.Args[1] {
	case "run":
		if len(os.Args) != 4 {
			usage()
		}
		os.Exit(coordinate(os.Args[2], os.Args[3]))
	case "worker":
		if len(os.Args) != 7 {
			usage()
		}
		rank, _ := strconv.Atoi(os.Args[4])
		n, _ := strconv.Atoi(os.Args[5])
		os.Exit(runWorker(os.Args[2], os.Args[3], rank, n, os.Args[6]))
	case "replay":
		if len(os.Args) != 3 {
			usage()
		}
		os.Exit(replay(os.Args[2], true))
	case "oneshot":
		if Oneshot == nil {
			usage()
		}
		Oneshot()
		os.Exit(0)
	case "list":
		ids := sortedKeys(registry)
		fmt.Println(strings.Join(ids, " "))
		os.Exit(0)
	default:
		usage()
	}
}

func usage() {
	fmt.Fprintln(os.Stderr, "usage: mc run <ID> <quick|thorough> | mc worker <ID> <tier> <rank> <n> <out> | mc replay <file> | mc list")
	os.Exit(2)
}

func runWorker(id, tier string, rank, n int, out string) int {
	p, ok := registry[id]
	if !ok {
		fmt.Fprintln(os.Stderr, "unknown property", id)
		return 2
	}
	budget := p.QuickBudget
	if tier == "thorough" {
		budget = p.ThoroBudget
	}
	if s := os.Getenv("VERIF_BUDGET_S"); s != "" {
		if v, err := strconv.Atoi(s); err == nil {
			budget = time.Duration(v) * time.Second
		}
	}
	w := &Worker{Prop: id, Tier: tier, Rank: rank, N: n, Rep: newReport(id, rank), deadline: time.Now().Add(budget)}
	if p.UseJournal {
		f, err := os.OpenFile(out+".journal", os.O_CREATE|os.O_RDWR|os.O_TRUNC, 0o644)
		if err == nil {
			w.journal = f
		}
	}
	// watchdog: an execution that makes no progress for 60 s is reported, not waited for
	go func() {
		last := w.progress.Load()
		lastT := time.Now()
		for {
			time.Sleep(5 * time.Second)
			cur := w.progress.Load()
			if cur != last {
				last, lastT = cur, time.Now()
				continue
			}
			if time.Since(lastT) > 120*time.Second {
				fmt.Fprintln(os.Stderr, "WATCHDOG: no progress for 120s")
				os.Exit(3)
			}
		}
	}()
	p.Run(w)
	w.Rep.finish()
	if err := writeJSON(out, w.Rep); err != nil {
		fmt.Fprintln(os.Stderr, err)
		return 2
	}
	return 0
}

// Touch signals liveness to the watchdog for properties that do not use Inner.
func (w *Worker) Touch() { w.progress.Add(1) }

// shardReports re-runs one shard of the enumeration (the same deterministic sequence of executions in
// one fresh process) `times` times and says whether every run reported the signature again.
func shardReports(exe, id, tier string, rank, n int, sig string, times int) bool {
	if n <= 0 {
		return false
	}
	for k := 0; k < times; k++ {
		out := filepath.Join(buildDir(), fmt.Sprintf("rerun-%d-%d.json", rank, k))
		os.MkdirAll(buildDir(), 0o755)
		os.Remove(out)
		cmd := exec.Command(exe, "worker", id, tier, strconv.Itoa(rank), strconv.Itoa(n), out)
		cmd.Env = append(os.Environ(), "GOMAXPROCS=2")
		if err := cmd.Run(); err != nil {
			return false
		}
		b, err := os.ReadFile(out)
		os.Remove(out)
		if err != nil {
			return false
		}
		var r Report
		if json.Unmarshal(b, &r) != nil {
			return false
		}
		if _, ok := r.Violations[sig]; !ok {
			return false
		}
	}
	return true
}

func replay(path string, verbose bool) int {
	b, err := os.ReadFile(path)
	if err != nil {
		fmt.Fprintln(os.Stderr, err)
		return 2
	}
	var v Violation
	if err := json.Unmarshal(b, &v); err != nil {
		fmt.Fprintln(os.Stderr, err)
		return 2
	}
	p, ok := registry[v.Replay.Property]
	if !ok {
		fmt.Fprintln(os.Stderr, "unknown property", v.Replay.Property)
		return 2
	}
	spec := v.Replay
	if v.HistoryDependent {
		exe, _ := os.Executable()
		if shardReports(exe, v.Property, spec.Tier, v.Worker, v.Workers, v.Signature, 1) {
			if verbose {
				fmt.Printf("REPLAY-VIOLATION property=%s signature=%q (history-dependent: reported again by the sequence of executions of worker %d/%d)\n  %s\n", v.Property, v.Signature, v.Worker, v.Workers, v.Detail)
				fmt.Printf("VIOLATION property=%s replay=%s\n", v.Property, path)
			}
			return 1
		}
		if verbose {
			fmt.Println("replay: the shard's sequence of executions no longer reports the recorded signature")
		}
		return 0
	}
	w := &Worker{Prop: p.ID, Tier: spec.Tier, Rank: 0, N: 1, Rep: newReport(p.ID, 0), replay: &spec,
		deadline: time.Now().Add(time.Hour)}
	p.Run(w)
	same := false
	for _, f := range w.ReplayFound {
		if verbose {
			fmt.Printf("REPLAY-VIOLATION property=%s signature=%q\n  %s\n", f.Property, f.Signature, f.Detail)
			cb, _ := json.MarshalIndent(f.Case, "  ", " ")
			fmt.Printf("  case: %s\n", cb)
		}
		if f.Signature == v.Signature {
			same = true
		}
	}
	if same {
		if verbose {
			fmt.Printf("VIOLATION property=%s replay=%s\n", v.Property, path)
		}
		return 1
	}
	if verbose {
		if len(w.ReplayFound) == 0 {
			fmt.Println("replay: the recorded case no longer violates the property")
		} else {
			fmt.Println("replay: the recorded signature did not reproduce (other violations above)")
		}
	}
	return 0
}

type evidence struct {
	PropertyID  string         `json:"property_id"`
	Tier        string         `json:"tier"`
	Seed        int            `json:"seed"`
	Level       string         `json:"level"`
	Coverage    map[string]any `json:"coverage"`
	Assumptions []string       `json:"assumptions"`
	WallS       float64        `json:"wall_s"`
	Violations  int            `json:"violations"`
}

func coordinate(id, tier string) int {
	p, ok := registry[id]
	if !ok {
		fmt.Fprintln(os.Stderr, "unknown property", id)
		return 2
	}
	if tier != "quick" && tier != "thorough" {
		usage()
	}
	start := time.Now()
	seed := 0
	if s := os.Getenv("VERIF_SEED"); s != "" {
		seed, _ = strconv.Atoi(s)
	}
	n := runtime.NumCPU()
	if s := os.Getenv("VERIF_WORKERS"); s != "" {
		if v, err := strconv.Atoi(s); err == nil && v > 0 {
			n = v
		}
	}
	bd := buildDir()
	os.MkdirAll(bd, 0o755)
	exe, _ := os.Executable()
	var wg sync.WaitGroup
	type wres struct {
		rep  *Report
		err  error
		code int
		out  string
	}
	results := make([]wres, n)
	for i := 0; i < n; i++ {
		wg.Add(1)
		go func(i int) {
			defer wg.Done()
			out := filepath.Join(bd, fmt.Sprintf("worker-%d.json", i))
			os.Remove(out)
			cmd := exec.Command(exe, "worker", id, tier, strconv.Itoa(i), strconv.Itoa(n), out)
			cmd.Env = append(os.Environ(), "GOMAXPROCS=2")
			logf, _ := os.Create(filepath.Join(bd, fmt.Sprintf("worker-%d.log", i)))
			cmd.Stdout, cmd.Stderr = logf, logf
			err := cmd.Run()
			logf.Close()
			results[i].err = err
			results[i].out = out
			if err != nil {
				if ee, ok := err.(*exec.ExitError); ok {
					results[i].code = ee.ExitCode()
				} else {
					results[i].code = -1
				}
				return
			}
			b, rerr := os.ReadFile(out)
			if rerr != nil {
				results[i].err = rerr
				return
			}
			var r Report
			if jerr := json.Unmarshal(b, &r); jerr != nil {
				results[i].err = jerr
				return
			}
			results[i].rep = &r
		}(i)
	}
	wg.Wait()

	// merge
	merged := newReport(id, -1)
	stageAgg := map[string]*StageResult{}
	var stageOrder []string
	infra := false
	var deaths []string
	for i, r := range results {
		if r.rep == nil {
			// a dead worker: attribute through the journal if the property uses one
			logb, _ := os.ReadFile(filepath.Join(bd, fmt.Sprintf("worker-%d.log", i)))
			jb, jerr := os.ReadFile(r.out + ".journal")
			if p.UseJournal && jerr == nil && len(jb) > 7 {
				ln, _ := strconv.Atoi(string(jb[:6]))
				if ln > 0 && 7+ln <= len(jb) {
					text := string(jb[7 : 7+ln])
					first := firstFatalLine(string(logb))
					sig := "worker-death:" + first
					merged.Violations[sig] = &Violation{Property: id, Signature: sig,
						Detail: "worker process died while executing the journaled case: " + first,
						Case:   map[string]any{"text": text, "log_tail": tail(string(logb), 1500)}, Count: 1}
					deaths = append(deaths, sig)
					continue
				}
			}
			if !infra {
				fmt.Fprintf(os.Stderr, "worker %d failed (%v)\n%s\n", i, r.err, tail(string(logb), 3000))
			}
			infra = true
			continue
		}
		rep := r.rep
		merged.Evaluations += rep.Evaluations
		merged.States += rep.States
		merged.Transitions += rep.Transitions
		merged.OuterCases += rep.OuterCases
		merged.Nontrivial += rep.Nontrivial
		merged.NontrivCap = merged.NontrivCap || rep.NontrivCap
		merged.Expired = merged.Expired || rep.Expired
		for k, v := range rep.Hist {
			merged.Hist[k] += v
		}
		for k, v := range rep.Counters {
			merged.Counters[k] += v
		}
		merged.Notes = append(merged.Notes, rep.Notes...)
		for _, s := range rep.Samples {
			if len(merged.Samples) < 12 {
				merged.Samples = append(merged.Samples, s)
			}
		}
		for sig, v := range rep.Violations {
			v.Worker, v.Workers = i, n
			old, ok := merged.Violations[sig]
			if !ok {
				merged.Violations[sig] = v
			} else {
				c := old.Count + v.Count
				if v.Size < old.Size {
					merged.Violations[sig] = v
				}
				merged.Violations[sig].Count = c
			}
		}
		for _, st := range rep.Stages {
			a, ok := stageAgg[st.Name]
			if !ok {
				c := st
				stageAgg[st.Name] = &c
				stageOrder = append(stageOrder, st.Name)
				continue
			}
			a.Complete = a.Complete && st.Complete
			a.Evaluations += st.Evaluations
			a.OuterCases += st.OuterCases
		}
	}
	if infra {
		fmt.Fprintln(os.Stderr, "infrastructure failure: at least one worker died without attribution; no verdict")
		return 2
	}
	if merged.Counters["harness_errors"] > 0 {
		fmt.Fprintf(os.Stderr, "infrastructure failure: the harness reported %d internal error(s): %v\n", merged.Counters["harness_errors"], merged.Notes)
		return 2
	}

	known := loadKnown()
	os.MkdirAll(filepath.Join(outRoot(), "replays"), 0o755)
	if old, _ := filepath.Glob(filepath.Join(outRoot(), "replays", id+"-*.json")); true {
		for _, f := range old {
			os.Remove(f) // artefacts of earlier runs of this property are stale
		}
	}
	exit := 0
	nviol := 0
	var knownLines, violLines, alone []string
	sigs := sortedKeys(merged.Violations)
	for _, sig := range sigs {
		v := merged.Violations[sig]
		if k := matchKnown(known, id, sig); k != nil {
			knownLines = append(knownLines, fmt.Sprintf("KNOWN-FINDING: property=%s %s [%s] (%d cases)", id, k.Description, sig, v.Count))
			continue
		}
		path := filepath.Join(outRoot(), "replays", fmt.Sprintf("%s-%016x.json", id, Hash64(sig)))
		v.Path = path
		writeJSON(path, v)
		// reproduce 5/5 through the replay path before believing it
		// a report of the race detector (free-running pass) is sound by itself and depends on the
		// OS schedule: it is not required to reproduce
		selfEvident := strings.HasPrefix(sig, "worker-death:") || strings.HasPrefix(v.Replay.Space, "race-pass/")
		if !selfEvident && os.Getenv("VERIF_NO_RECHECK") == "" {
			okc := 0
			for k := 0; k < 5; k++ {
				cmd := exec.Command(exe, "replay", path)
				cmd.Env = os.Environ()
				outb, _ := cmd.CombinedOutput()
				if cmd.ProcessState != nil && cmd.ProcessState.ExitCode() == 1 && strings.Contains(string(outb), "VIOLATION property=") {
					okc++
				}
			}
			if okc == 0 {
				// never when executed alone: decided after the reproducible ones (below)
				alone = append(alone, sig)
				continue
			}
			if okc != 5 {
				fmt.Fprintf(os.Stderr, "harness error: violation %q reproduced %d/5 times through replay; treated as infrastructure failure\n", sig, okc)
				return 2
			}
		}
		nviol++
		exit = 1
		violLines = append(violLines, fmt.Sprintf("VIOLATION property=%s replay=%s", id, path))
		fmt.Fprintf(os.Stderr, "-- %s: %s (%d cases)\n   %s\n", id, sig, v.Count, v.Detail)
	}
	// Violations that never reproduce alone: does the shard's deterministic sequence of executions,
	// run again in one fresh process, report them again (2 of 2)? Then the code under test keeps
	// state from one execution to the next and the violation is real. At most 3 such re-runs;
	// the others are dropped when something has been confirmed, else the run is an infrastructure failure.
	for k, sig := range alone {
		v := merged.Violations[sig]
		if k < 3 && shardReports(exe, id, tier, v.Worker, v.Workers, sig, 2) {
			v.HistoryDependent = true
			v.Detail += " [history-dependent: the case alone does not violate the property in a fresh process; the deterministic sequence of executions of worker " + strconv.Itoa(v.Worker) + "/" + strconv.Itoa(v.Workers) + " reported it again in 2 of 2 re-runs: the code under test keeps state from one execution to the next]"
			writeJSON(v.Path, v)
			nviol++
			exit = 1
			violLines = append(violLines, fmt.Sprintf("VIOLATION property=%s replay=%s", id, v.Path))
			fmt.Fprintf(os.Stderr, "-- %s: %s (%d cases)\n   %s\n", id, sig, v.Count, v.Detail)
			continue
		}
		os.Remove(v.Path)
		if k < 3 {
			fmt.Fprintf(os.Stderr, "harness error: violation %q reproduced 0/5 times alone and not in a re-run of its shard; treated as infrastructure failure\n", sig)
			return 2
		}
		fmt.Fprintf(os.Stderr, "note: signature %q (never reproduces alone) was not re-examined: three history-dependent signatures were already re-run\n", sig)
	}

	// evidence
	var stages []StageResult
	allComplete := true
	completedBounds := []string{}
	for _, name := range stageOrder {
		st := stageAgg[name]
		stages = append(stages, *st)
		if st.Complete {
			completedBounds = append(completedBounds, st.Name+": "+st.Bounds)
		} else {
			allComplete = false
		}
	}
	hist := map[string]int64{}
	hk := sortedKeys(merged.Hist)
	// keep the histogram readable: top 40 classes by count
	sort.Slice(hk, func(i, j int) bool { return merged.Hist[hk[i]] > merged.Hist[hk[j]] })
	for i, k := range hk {
		if i >= 40 {
			hist["(other classes)"] += merged.Hist[k]
			continue
		}
		hist[k] = merged.Hist[k]
	}
	samples := merged.Samples
	if len(samples) == 0 {
		samples = []any{"(no sample recorded)"}
	}
	cov := map[string]any{
		"states":                        merged.States + 1,
		"transitions":                   merged.Transitions,
		"traces_validated_against_impl": merged.Evaluations,
		"evaluations":                   merged.Evaluations,
		"distinct_nontrivial":           merged.Nontrivial,
		"distinct_nontrivial_is_lower_bound": merged.NontrivCap,
		"rule":                          p.Rule,
		"samples":                       samples,
		"exhaustive":                    allComplete && !merged.Expired,
		"stages":                        stages,
		"completed_bounds":              completedBounds,
		"outer_cases":                   merged.OuterCases,
		"distinct_outcomes":             len(merged.Hist),
		"outcome_histogram":             hist,
		"counters":                      merged.Counters,
		"workers":                       n,
		"known_findings_matched":        len(knownLines),
		"explanation": "stateless exhaustive enumeration of every choice sequence of the stated bounded space; each complete sequence is one execution of the real numscript code judged by the property's oracle (states = choice-tree nodes, transitions = choice-tree edges, traces_validated_against_impl = executions of the real code that were judged)",
	}
	if merged.Expired {
		cov["capped"] = "the tier's wall-clock budget was reached; stages marked complete=false were not finished and nothing is claimed about them"
	}
	if len(merged.Notes) > 0 {
		cov["notes"] = merged.Notes
	}
	if p.Extra != nil {
		for k, v := range p.Extra(tier) {
			cov[k] = v
		}
	}
	ev := evidence{PropertyID: id, Tier: tier, Seed: seed, Level: "model_checking", Coverage: cov,
		Assumptions: append([]string{"VERIF_SEED is recorded but unused: nothing is drawn at random"}, p.Assumptions...),
		WallS:       time.Since(start).Seconds(), Violations: nviol}
	os.MkdirAll(filepath.Join(outRoot(), "evidence"), 0o755)
	if err := writeJSON(filepath.Join(outRoot(), "evidence", id+".json"), ev); err != nil {
		fmt.Fprintln(os.Stderr, err)
		return 2
	}
	for _, l := range knownLines {
		fmt.Println(l)
	}
	for _, l := range violLines {
		fmt.Println(l)
	}
	fmt.Fprintf(os.Stderr, "%s %s: executions=%d outer=%d states=%d nontrivial=%d outcomes=%d exhaustive=%v violations=%d known=%d wall=%.1fs\n",
		id, tier, merged.Evaluations, merged.OuterCases, merged.States, merged.Nontrivial, len(merged.Hist), allComplete && !merged.Expired, nviol, len(knownLines), time.Since(start).Seconds())
	_ = deaths
	return exit
}

func firstFatalLine(log string) string {
	for _, l := range strings.Split(log, "\n") {
		if strings.HasPrefix(l, "fatal error:") || strings.HasPrefix(l, "panic:") || strings.HasPrefix(l, "runtime:") || strings.HasPrefix(l, "WATCHDOG") {
			if len(l) > 120 {
				l = l[:120]
			}
			return l
		}
	}
	return "unknown"
}

func tail(s string, n int) string {
	if len(s) <= n {
		return s
	}
	return s[len(s)-n:]
}
