package mc

import (
	"encoding/json"
	"fmt"
	"hash/fnv"
	"os"
	"runtime/debug"
	"sort"
	"strings"
	"sync/atomic"
	"time"
)

// ReplaySpec pins one explored case: the space it came from plus the answer vectors of the
// outer (program) and inner (inputs / environment) explorers.
type ReplaySpec struct {
	Property    string `json:"property"`
	Tier        string `json:"tier"`
	Space       string `json:"space"`
	OuterBudget int    `json:"outer_budget"`
	InnerBudget int    `json:"inner_budget"`
	Outer       []int  `json:"outer"`
	Inner       []int  `json:"inner"`
}

type Violation struct {
	Property  string     `json:"property"`
	Signature string     `json:"signature"`
	Detail    string     `json:"detail"`
	Case      any        `json:"case"`
	Replay    ReplaySpec `json:"replay"`
	Count     int64      `json:"count"`
	Size      int        `json:"size"` // smaller = simpler witness
	Path      string     `json:"path,omitempty"`
	// Worker / Workers: which shard of the enumeration found it. HistoryDependent: the case does
	// not violate the property when executed alone in a fresh process, but does, every time, when
	// the shard's deterministic sequence of executions is run again in one process — the code under
	// test keeps state from one execution to the next.
	Worker           int  `json:"worker"`
	Workers          int  `json:"workers,omitempty"`
	HistoryDependent bool `json:"history_dependent,omitempty"`
}

type StageResult struct {
	Name        string `json:"name"`
	Bounds      string `json:"bounds"`
	Complete    bool   `json:"complete"`
	Evaluations int64  `json:"evaluations"`
	OuterCases  int64  `json:"outer_cases"`
}

// Report is what one worker produces.
type Report struct {
	Property     string                `json:"property"`
	Rank         int                   `json:"rank"`
	Evaluations  int64                 `json:"evaluations"`
	States       int64                 `json:"states"`
	Transitions  int64                 `json:"transitions"`
	OuterCases   int64                 `json:"outer_cases"`
	Nontrivial   int64                 `json:"nontrivial"`
	NontrivCap   bool                  `json:"nontrivial_capped"`
	Hist         map[string]int64      `json:"hist"`
	Samples      []any                 `json:"samples"`
	Violations   map[string]*Violation `json:"violations"`
	Stages       []StageResult         `json:"stages"`
	Counters     map[string]int64      `json:"counters"`
	Expired      bool                  `json:"expired"`
	Notes        []string              `json:"notes"`
	nontrivSet   map[uint64]struct{}
	samplesByKey map[string]bool
}

type Worker struct {
	Prop     string
	Tier     string
	Rank, N  int
	Rep      *Report
	deadline time.Time
	progress atomic.Int64
	journal  *os.File

	// replay mode
	replay *ReplaySpec

	// current enumeration context (for violation capture)
	curSpace    string
	curOuter    *Explorer
	curInner    *Explorer
	curStage    *StageResult
	ReplayFound []*Violation
}

const nontrivCapPerWorker = 4_000_000

func Hash64(s string) uint64 {
	h := fnv.New64a()
	h.Write([]byte(s))
	return h.Sum64()
}

func newReport(prop string, rank int) *Report {
	return &Report{Property: prop, Rank: rank, Hist: map[string]int64{}, Violations: map[string]*Violation{},
		Counters: map[string]int64{}, nontrivSet: map[uint64]struct{}{}, samplesByKey: map[string]bool{}}
}

// Mine reports whether the outer case identified by key belongs to this worker's shard.
// Sharding by content hash makes duplicates land in the same worker, so per-worker distinct
// counts add up to a global distinct count.
func (w *Worker) Mine(key string) bool {
	if w.replay != nil || w.N <= 1 {
		return true
	}
	return int(Hash64(key)%uint64(w.N)) == w.Rank
}

func (w *Worker) Expired() bool {
	if w.replay != nil {
		return false
	}
	if time.Now().After(w.deadline) {
		w.Rep.Expired = true
		return true
	}
	return false
}

func (w *Worker) IsReplay() bool { return w.replay != nil }

// Stage runs one named stage of a property's space. Stages are ordered by increasing bound;
// a stage interrupted by the tier's wall-clock budget is reported as incomplete (never as a
// violation) and later stages are skipped.
func (w *Worker) Stage(name, bounds string, body func()) {
	if w.replay != nil {
		// in replay mode only the stage that owns the recorded space prefix runs
		if !strings.HasPrefix(w.replay.Space, name+"/") && w.replay.Space != name {
			return
		}
		w.curStage = &StageResult{Name: name}
		body()
		return
	}
	if w.Rep.Expired {
		w.Rep.Stages = append(w.Rep.Stages, StageResult{Name: name, Bounds: bounds, Complete: false})
		return
	}
	st := StageResult{Name: name, Bounds: bounds}
	w.curStage = &st
	ev0, oc0 := w.Rep.Evaluations, w.Rep.OuterCases
	body()
	st.Evaluations = w.Rep.Evaluations - ev0
	st.OuterCases = w.Rep.OuterCases - oc0
	st.Complete = !w.Rep.Expired
	w.Rep.Stages = append(w.Rep.Stages, st)
}

// Outer enumerates the outer (program) level of space `space` (which must start with the
// stage name). body is called once per complete outer choice sequence.
func (w *Worker) Outer(space string, budget int, body func(o *Explorer)) {
	if w.curStage != nil && !strings.HasPrefix(space, w.curStage.Name+"/") {
		panic("mc: space " + space + " does not start with its stage name " + w.curStage.Name + "/ (replay would skip it)")
	}
	w.curSpace = space
	if w.replay != nil {
		if w.replay.Space != space {
			return
		}
		o := NewReplay(w.replay.Outer, w.replay.OuterBudget)
		o.Begin()
		w.curOuter = o
		body(o)
		w.curOuter = nil
		return
	}
	o := NewExplorer(budget)
	w.curOuter = o
	n := 0
	for o.Begin() {
		body(o)
		n++
		if n&63 == 0 && w.Expired() {
			break
		}
	}
	w.Rep.States += o.Nodes
	w.Rep.Transitions += o.Edges
	w.curOuter = nil
}

// Owned is to be called by an Outer body once it has decided (via Mine) that the case is its
// own; it counts the outer case.
func (w *Worker) Owned() { w.Rep.OuterCases++ }

// Inner enumerates the inner (inputs / environment) level for the current outer case.
func (w *Worker) Inner(budget int, body func(in *Explorer)) {
	if w.replay != nil {
		in := NewReplay(w.replay.Inner, w.replay.InnerBudget)
		in.Begin()
		w.curInner = in
		w.guardedBody(in, body)
		w.curInner = nil
		return
	}
	in := NewExplorer(budget)
	w.curInner = in
	cnt := 0
	for in.Begin() {
		w.guardedBody(in, body)
		w.progress.Add(1)
		// a long inner enumeration must not overrun the tier's budget by minutes: the stage is then
		// reported as incomplete (never as a verdict), like an outer enumeration that was cut
		if cnt++; cnt&1023 == 0 && w.Expired() {
			break
		}
	}
	w.Rep.States += in.Nodes
	w.Rep.Transitions += in.Edges
	w.curInner = nil
}

// Eval records one complete execution of the real code that was judged by the oracle.
// caseKey identifies the case (distinctness), nontrivial is the property's stated rule,
// outcome is a short signature of what was observed (for the histogram).
func (w *Worker) Eval(caseKey string, nontrivial bool, outcome string) {
	r := w.Rep
	r.Evaluations++
	r.Hist[outcome]++
	if nontrivial {
		if len(r.nontrivSet) < nontrivCapPerWorker {
			r.nontrivSet[Hash64(caseKey)] = struct{}{}
		} else {
			r.NontrivCap = true
		}
	}
}

// Sample keeps a few explored cases (at most one per outcome class, at most 12) for the
// evidence file.
func (w *Worker) Sample(class string, c any) {
	r := w.Rep
	if len(r.Samples) >= 12 || r.samplesByKey[class] {
		return
	}
	r.samplesByKey[class] = true
	r.Samples = append(r.Samples, c)
}

func (w *Worker) Count(name string, d int64) { w.Rep.Counters[name] += d }

// Violation records a property violation under a cause signature. Only the simplest witness
// per signature is kept (smallest size, then first found).
func (w *Worker) Violation(sig, detail string, size int, c any) {
	spec := ReplaySpec{Property: w.Prop, Tier: w.Tier, Space: w.curSpace}
	if w.curOuter != nil {
		spec.Outer = w.curOuter.Choices()
		spec.OuterBudget = w.curOuter.Budget
	}
	if w.curInner != nil {
		spec.Inner = w.curInner.Choices()
		spec.InnerBudget = w.curInner.Budget
	}
	v := &Violation{Property: w.Prop, Signature: sig, Detail: detail, Case: c, Replay: spec, Count: 1, Size: size}
	if w.replay != nil {
		w.ReplayFound = append(w.ReplayFound, v)
		return
	}
	old, ok := w.Rep.Violations[sig]
	if !ok {
		w.Rep.Violations[sig] = v
		return
	}
	old.Count++
	if size < old.Size {
		v.Count = old.Count
		w.Rep.Violations[sig] = v
	}
}

// Journal writes the text of the case about to be executed to a fixed-size slot on disk so
// that an unrecoverable death (stack overflow, fatal error) can be attributed.
func (w *Worker) Journal(s string) {
	if w.journal == nil {
		return
	}
	if len(s) > 4000 {
		s = s[:4000]
	}
	buf := make([]byte, 4096)
	copy(buf, fmt.Sprintf("%06d|", len(s))+s)
	w.journal.WriteAt(buf, 0)
}

// Guard runs f and converts a panic into (true, message, repo-frame) where the frame is the
// innermost stack frame inside the numscript module that is not harness code.
func Guard(f func()) (panicked bool, msg string, where string) {
	defer func() {
		if r := recover(); r != nil {
			panicked = true
			msg = fmt.Sprint(r)
			where = repoFrame(string(debug.Stack()))
		}
	}()
	f()
	return
}

func repoFrame(stack string) string {
	lines := strings.Split(stack, "\n")
	for _, l := range lines {
		l = strings.TrimSpace(l)
		if !strings.HasPrefix(l, "github.com/formancehq/numscript") {
			continue
		}
		if strings.Contains(l, "/internal/verifmc/") || strings.Contains(l, "/verifrt") {
			continue
		}
		// function name without arguments
		if i := strings.Index(l, "("); i > 0 {
			// keep method receivers like (*T).m : find the last "(" that starts the arg list
			j := strings.LastIndex(l, "(")
			if j > 0 {
				l = l[:j]
			}
		}
		l = strings.TrimPrefix(l, "github.com/formancehq/numscript/")
		return l
	}
	return "?"
}

func (r *Report) finish() {
	r.Nontrivial = int64(len(r.nontrivSet))
}

func writeJSON(path string, v any) error {
	b, err := json.MarshalIndent(v, "", " ")
	if err != nil {
		return err
	}
	tmp := path + ".tmp"
	if err := os.WriteFile(tmp, b, 0o644); err != nil {
		return err
	}
	return os.Rename(tmp, path)
}

func sortedKeys[V any](m map[string]V) []string {
	ks := make([]string, 0, len(m))
	for k := range m {
		ks = append(ks, k)
	}
	sort.Strings(ks)
	return ks
}

// WithPath runs f as the case identified by an explicit choice path inside space (used by
// explicit-state searches, whose cases are histories rather than odometer positions). In
// replay mode f runs only for the recorded path.
func (w *Worker) WithPath(space string, path []int, f func()) {
	if w.replay != nil {
		if w.replay.Space != space || !sameInts(w.replay.Outer, path) {
			return
		}
	}
	w.curSpace = space
	w.curOuter = NewReplay(path, 0)
	w.curInner = nil
	f()
	w.curOuter = nil
}

// ReplayPath returns the recorded path when replaying a case of the given space.
func (w *Worker) ReplayPath(space string) ([]int, bool) {
	if w.replay != nil && w.replay.Space == space {
		return w.replay.Outer, true
	}
	return nil, false
}

func (w *Worker) AddStates(states, transitions int64) {
	w.Rep.States += states
	w.Rep.Transitions += transitions
}

func sameInts(a, b []int) bool {
	if len(a) != len(b) {
		return false
	}
	for i := range a {
		if a[i] != b[i] {
			return false
		}
	}
	return true
}

// guardedBody runs one inner case. A panic that escapes the property's own guards happens
// while the harness inspects what the code under test returned (e.g. a big.Int whose
// internals were corrupted through aliasing): it is reported as a violation of the property
// with the panic as detail, never as a silent worker death.
func (w *Worker) guardedBody(in *Explorer, body func(in *Explorer)) {
	defer func() {
		if r := recover(); r != nil {
			msg := fmt.Sprint(r)
			if strings.HasPrefix(msg, "mc: ") {
				panic(r) // explorer divergence: a harness bug, must stay loud
			}
			st := string(debug.Stack())
			w.Violation(w.Prop+".malformed-result", "inspecting the result of the code under test panicked (malformed / corrupted value returned): "+msg,
				1000, map[string]any{"panic": msg, "stack": firstLines(st, 30)})
		}
	}()
	body(in)
}

func firstLines(s string, n int) string {
	ls := strings.Split(s, "\n")
	if len(ls) > n {
		ls = ls[:n]
	}
	return strings.Join(ls, "\n")
}
