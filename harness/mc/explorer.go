// Package mc is the engine: a stateless, deterministic choice-sequence explorer
// (depth-first over all sequences of answers to Choose calls, optionally bounded by a
// cost budget on non-default answers), worker sharding, violation bookkeeping,
// known-findings classification and the evidence writer.
package mc

import "fmt"

type frame struct {
	n     int
	cur   int
	costs []int // nil = all alternatives free
}

// Explorer enumerates every sequence of answers to the Choose calls made by a
// deterministic body. Usage:
//
//	e := NewExplorer(budget)
//	for e.Begin() { body(e) }
//
// Begin returns true once per distinct complete choice sequence (in DFS order, answer 0
// first) whose total cost is within the budget. If the body makes a different number of
// alternatives available at a replayed position, Choose panics (divergence = harness bug).
type Explorer struct {
	stack  []frame
	pos    int
	Budget int
	spent  int
	first  bool
	done   bool
	forced []int
	isRep  bool
	// accounting
	Nodes int64 // choice points created (states of the choice tree)
	Edges int64 // alternatives taken (transitions)
	Runs  int64 // complete sequences
}

func NewExplorer(budget int) *Explorer { return &Explorer{Budget: budget, first: true} }

// NewReplay returns an explorer that yields exactly one run answering with `choices`.
func NewReplay(choices []int, budget int) *Explorer {
	return &Explorer{Budget: budget, first: true, forced: append([]int{}, choices...), isRep: true}
}

func (e *Explorer) cost(f *frame, alt int) int {
	if f.costs == nil {
		return 0
	}
	return f.costs[alt]
}

// Begin positions the explorer on the next unexplored sequence.
func (e *Explorer) Begin() bool {
	if e.done {
		return false
	}
	if e.first {
		e.first = false
		e.pos, e.spent = 0, 0
		e.Runs++
		return true
	}
	if e.isRep {
		e.done = true
		return false
	}
	// advance the odometer: find the deepest frame with another affordable alternative
	// prefix[i] = cost spent before frame i
	prefix := make([]int, len(e.stack)+1)
	for j := range e.stack {
		prefix[j+1] = prefix[j] + e.cost(&e.stack[j], e.stack[j].cur)
	}
	for len(e.stack) > 0 {
		i := len(e.stack) - 1
		f := &e.stack[i]
		before := prefix[i]
		next := -1
		for alt := f.cur + 1; alt < f.n; alt++ {
			if before+e.cost(f, alt) <= e.Budget {
				next = alt
				break
			}
		}
		if next >= 0 {
			f.cur = next
			e.Edges++
			e.pos, e.spent = 0, 0
			e.Runs++
			return true
		}
		e.stack = e.stack[:i]
	}
	e.done = true
	return false
}

// Choose returns an answer in [0,n). Answer 0 is the default/simplest one.
func (e *Explorer) Choose(n int) int { return e.ChooseW(n, nil) }

// ChooseW is Choose with a cost per alternative (costs[0] must be 0).
func (e *Explorer) ChooseW(n int, costs []int) int {
	if n <= 0 {
		panic("mc: Choose with no alternatives")
	}
	if e.isRep {
		if e.pos >= len(e.forced) {
			// beyond the recorded prefix: default answer
			e.pos++
			return 0
		}
		v := e.forced[e.pos]
		if v < 0 || v >= n {
			panic(fmt.Sprintf("mc: replay divergence at choice %d: recorded %d, only %d alternatives", e.pos, v, n))
		}
		e.pos++
		if costs != nil {
			e.spent += costs[v]
		}
		return v
	}
	if e.pos < len(e.stack) {
		f := &e.stack[e.pos]
		if f.n != n {
			panic(fmt.Sprintf("mc: divergence at choice %d: %d alternatives now, %d before", e.pos, n, f.n))
		}
		e.spent += e.cost(f, f.cur)
		e.pos++
		return f.cur
	}
	if costs != nil && costs[0] != 0 {
		panic("mc: costs[0] must be 0")
	}
	e.stack = append(e.stack, frame{n: n, cur: 0, costs: costs})
	e.Nodes++
	e.Edges++
	e.pos++
	return 0
}

// Left returns the budget still available at this point of the current run.
func (e *Explorer) Left() int { return e.Budget - e.spent }

// Afford reports whether c more units fit in the budget at this point (deterministic given
// the prefix and the budget, both of which a replay restores).
func (e *Explorer) Afford(c int) bool { return e.spent+c <= e.Budget }

// Opt is an optional deviation of cost c: returns true on the branch that takes it.
func (e *Explorer) Opt(c int) bool {
	if c == 0 {
		return e.Choose(2) == 1
	}
	return e.ChooseW(2, []int{0, c}) == 1
}

// Choices returns a copy of the current answer vector.
func (e *Explorer) Choices() []int {
	if e.isRep {
		return append([]int{}, e.forced...)
	}
	out := make([]int, 0, e.pos)
	for i := 0; i < e.pos && i < len(e.stack); i++ {
		out = append(out, e.stack[i].cur)
	}
	return out
}
