// Package env holds the harness-owned environment of an execution: Store implementations
// that log every query, answer in one of several admissible ways, and can fail at the k-th call.
package env

import (
	"context"
	"fmt"
	"math/big"
	"sort"

	"github.com/formancehq/numscript/internal/interpreter"
)

type Mode int

const (
	Exact    Mode = iota // exactly the pairs asked for (absent = 0), fresh big.Ints
	Sparse               // omits absent and zero entries
	Superset             // whole content, deep-copied
	Static               // the bundled StaticStore over harness-owned maps (aliasing visible)
)

func (m Mode) String() string { return [...]string{"exact", "sparse", "superset", "static"}[m] }

type Bal = map[string]map[string]*big.Int
type Meta = map[string]map[string]string

type Query struct {
	Kind string // "balances" | "metadata"
	Q    map[string][]string
}

type Store struct {
	Mode    Mode
	Bal     Bal
	Meta    Meta
	FaultAt int // 0 = never; k = the k-th store call (of either kind) fails
	Calls   int
	Log     []Query
	static  interpreter.StaticStore
	// zero is the one number this store answers with for every pair it has no entry for (Exact mode):
	// a store is free to share it between answers, and to hand out its own numbers
	zero *big.Int
	// Yield, if set, is called at the beginning of every store call (scheduling point for C11).
	Yield func()
}

func CloneBal(b Bal) Bal {
	out := Bal{}
	for a, m := range b {
		out[a] = map[string]*big.Int{}
		for k, v := range m {
			out[a][k] = new(big.Int).Set(v)
		}
	}
	return out
}

func CloneMeta(b Meta) Meta {
	out := Meta{}
	for a, m := range b {
		out[a] = map[string]string{}
		for k, v := range m {
			out[a][k] = v
		}
	}
	return out
}

// New makes a store with its own deep copy of the content.
func New(mode Mode, bal Bal, meta Meta) *Store {
	s := &Store{Mode: mode, Bal: CloneBal(bal), Meta: CloneMeta(meta)}
	if mode == Static {
		sb := interpreter.Balances{}
		for a, m := range s.Bal {
			sb[a] = m
		}
		sm := interpreter.AccountsMetadata{}
		for a, m := range s.Meta {
			sm[a] = m
		}
		s.static = interpreter.StaticStore{Balances: sb, Meta: sm}
	}
	return s
}

// ZeroIntact reports whether the shared number this store answers absent pairs with is still zero.
func (s *Store) ZeroIntact() bool { return s.zero == nil || s.zero.Sign() == 0 }

// StaticMaps: the very maps the bundled StaticStore hands out (nil, nil in the other modes).
func (s *Store) StaticMaps() (interpreter.Balances, interpreter.AccountsMetadata) {
	if s.Mode != Static {
		return nil, nil
	}
	return s.static.Balances, s.static.Meta
}

func FaultMsg(k int) string { return fmt.Sprintf("store-fault-%d", k) }

func copyQ(q map[string][]string) map[string][]string {
	out := map[string][]string{}
	for k, v := range q {
		c := append([]string{}, v...)
		sort.Strings(c)
		out[k] = c
	}
	return out
}

func (s *Store) GetBalances(ctx context.Context, q interpreter.BalanceQuery) (interpreter.Balances, error) {
	if s.Yield != nil {
		s.Yield()
	}
	s.Calls++
	s.Log = append(s.Log, Query{"balances", copyQ(q)})
	if s.FaultAt == s.Calls {
		return nil, fmt.Errorf("%s", FaultMsg(s.Calls))
	}
	out := interpreter.Balances{}
	switch s.Mode {
	case Exact:
		for acct, assets := range q {
			out[acct] = interpreter.AccountBalance{}
			for _, a := range assets {
				if s.zero == nil {
					s.zero = new(big.Int)
				}
				v := s.zero
				if b, ok := s.Bal[acct][a]; ok {
					v = b // the store's own number, not a copy
				}
				out[acct][a] = v
			}
		}
	case Sparse:
		for acct, assets := range q {
			for _, a := range assets {
				if b, ok := s.Bal[acct][a]; ok && b.Sign() != 0 {
					if out[acct] == nil {
						out[acct] = interpreter.AccountBalance{}
					}
					out[acct][a] = b
				}
			}
		}
	case Superset:
		for acct, m := range s.Bal {
			out[acct] = interpreter.AccountBalance{}
			for a, b := range m {
				out[acct][a] = b
			}
		}
	case Static:
		return s.static.GetBalances(ctx, q)
	}
	return out, nil
}

func (s *Store) GetAccountsMetadata(ctx context.Context, q interpreter.MetadataQuery) (interpreter.AccountsMetadata, error) {
	if s.Yield != nil {
		s.Yield()
	}
	s.Calls++
	s.Log = append(s.Log, Query{"metadata", copyQ(q)})
	if s.FaultAt == s.Calls {
		return nil, fmt.Errorf("%s", FaultMsg(s.Calls))
	}
	out := interpreter.AccountsMetadata{}
	switch s.Mode {
	case Exact, Sparse:
		for acct, keys := range q {
			for _, k := range keys {
				if v, ok := s.Meta[acct][k]; ok {
					if out[acct] == nil {
						out[acct] = interpreter.AccountMetadata{}
					}
					out[acct][k] = v
				}
			}
		}
	case Superset:
		for acct, m := range s.Meta {
			out[acct] = interpreter.AccountMetadata{}
			for k, v := range m {
				out[acct][k] = v
			}
		}
	case Static:
		return s.static.GetAccountsMetadata(ctx, q)
	}
	return out, nil
}
