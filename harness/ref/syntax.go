package ref

import (
	"strings"
)

// Reference syntax of numscript: a maximal-munch lexer for the token rules of Numscript.g4
// (earliest rule wins ties, WS and comments skipped, an unmatched character is a lexical
// error) and a generic Earley recognizer over a production table transcribed from the
// parser rules. Used to decide whether a text is in the language; it does not emulate
// ANTLR's error recovery.

type Tok struct {
	Kind       string
	Text       string
	Start, End int // rune offsets
	Line, Col  int // of Start, in runes
}

// lexer rule order of the generated lexer: implicit '+' first, then the rules in file order
var kwOrder = []struct{ kind, text string }{
	{"VARS", "vars"}, {"MAX", "max"}, {"SOURCE", "source"}, {"DESTINATION", "destination"}, {"SEND", "send"},
	{"FROM", "from"}, {"UP", "up"}, {"TO", "to"}, {"REMAINING", "remaining"}, {"ALLOWING", "allowing"},
	{"UNBOUNDED", "unbounded"}, {"OVERDRAFT", "overdraft"}, {"KEPT", "kept"}, {"SAVE", "save"},
	{"LPARENS", "("}, {"RPARENS", ")"}, {"LBRACKET", "["}, {"RBRACKET", "]"}, {"LBRACE", "{"}, {"RBRACE", "}"},
	{"COMMA", ","}, {"EQ", "="}, {"STAR", "*"}, {"MINUS", "-"},
}

func isDigit(r rune) bool { return r >= '0' && r <= '9' }
func isLower(r rune) bool { return r >= 'a' && r <= 'z' }
func isUpper(r rune) bool { return r >= 'A' && r <= 'Z' }
func isAcctCh(r rune) bool {
	return isDigit(r) || isLower(r) || isUpper(r) || r == '_' || r == '-'
}

type LexResult struct {
	Toks       []Tok
	Err        bool // some character matched no rule
	Unmodelled bool // the text relies on lexer subtleties the reference does not model (nested comment openers)
}

func hasPrefixAt(rs []rune, i int, s string) bool {
	sr := []rune(s)
	if i+len(sr) > len(rs) {
		return false
	}
	for k, c := range sr {
		if rs[i+k] != c {
			return false
		}
	}
	return true
}

// Lex tokenizes text.
func Lex(text string) LexResult {
	rs := []rune(text)
	var res LexResult
	line, col := 0, 0
	i := 0
	for i < len(rs) {
		bestLen, bestKind := 0, ""
		try := func(kind string, n int) {
			if n > bestLen {
				bestLen, bestKind = n, kind
			}
		}
		c := rs[i]
		// '+'
		if c == '+' {
			try("PLUS", 1)
		}
		// WS
		{
			j := i
			for j < len(rs) && (rs[j] == ' ' || rs[j] == '\t' || rs[j] == '\r' || rs[j] == '\n') {
				j++
			}
			try("WS", j-i)
		}
		// MULTILINE_COMMENT
		if hasPrefixAt(rs, i, "/*") {
			j := i + 2
			closed := -1
			for j+1 < len(rs)+0 && j < len(rs) {
				if hasPrefixAt(rs, j, "*/") {
					closed = j + 2
					break
				}
				if hasPrefixAt(rs, j, "/*") {
					res.Unmodelled = true
				}
				j++
			}
			if closed > 0 {
				try("COMMENT", closed-i)
			}
		}
		// LINE_COMMENT
		if hasPrefixAt(rs, i, "//") {
			j := i + 2
			for j < len(rs) && rs[j] != '\r' && rs[j] != '\n' {
				j++
			}
			if j < len(rs) {
				for j < len(rs) && (rs[j] == '\r' || rs[j] == '\n') {
					j++
				}
				try("COMMENT", j-i)
			}
		}
		for _, kw := range kwOrder {
			if hasPrefixAt(rs, i, kw.text) {
				try(kw.kind, len([]rune(kw.text)))
			}
		}
		// RATIO
		if isDigit(c) {
			j := i
			for j < len(rs) && isDigit(rs[j]) {
				j++
			}
			k := j
			if k < len(rs) && rs[k] == ' ' {
				k++
			}
			if k < len(rs) && rs[k] == '/' {
				k++
				if k < len(rs) && rs[k] == ' ' {
					k++
				}
				if k < len(rs) && isDigit(rs[k]) {
					for k < len(rs) && isDigit(rs[k]) {
						k++
					}
					try("RATIO", k-i)
				}
			}
			// PERCENTAGE
			k = j
			if k < len(rs) && rs[k] == '.' {
				k2 := k + 1
				if k2 < len(rs) && isDigit(rs[k2]) {
					for k2 < len(rs) && isDigit(rs[k2]) {
						k2++
					}
					k = k2
				}
			}
			if k < len(rs) && rs[k] == '%' {
				try("PERCENTAGE", k+1-i)
			}
		}
		// STRING
		if c == '"' {
			last := -1
			for j := i + 1; j < len(rs); j++ {
				if rs[j] == '\r' || rs[j] == '\n' {
					break
				}
				if rs[j] == '"' {
					last = j
					if rs[j-1] != '\\' || j-1 == i {
						break
					}
				}
			}
			if last > 0 {
				try("STRING", last+1-i)
			}
		}
		// IDENTIFIER
		if isLower(c) {
			j := i + 1
			for j < len(rs) && (isLower(rs[j]) || rs[j] == '_') {
				j++
			}
			try("IDENTIFIER", j-i)
		}
		// NUMBER
		{
			j := i
			if j < len(rs) && rs[j] == '-' {
				j++
			}
			if j < len(rs) && isDigit(rs[j]) {
				for j < len(rs) && isDigit(rs[j]) {
					j++
				}
				try("NUMBER", j-i)
			}
		}
		// VARIABLE_NAME
		if c == '$' && i+1 < len(rs) && (isLower(rs[i+1]) || rs[i+1] == '_') {
			j := i + 1
			for j < len(rs) && (isLower(rs[j]) || rs[j] == '_') {
				j++
			}
			for j < len(rs) && (isLower(rs[j]) || rs[j] == '_' || isDigit(rs[j])) {
				j++
			}
			try("VARIABLE_NAME", j-i)
		}
		// ACCOUNT
		if c == '@' && i+1 < len(rs) && isAcctCh(rs[i+1]) {
			j := i + 1
			for j < len(rs) && isAcctCh(rs[j]) {
				j++
			}
			for j+1 < len(rs) && rs[j] == ':' && isAcctCh(rs[j+1]) {
				j++
				for j < len(rs) && isAcctCh(rs[j]) {
					j++
				}
			}
			try("ACCOUNT", j-i)
		}
		// ASSET
		if isUpper(c) || c == '/' || isDigit(c) {
			j := i
			for j < len(rs) && (isUpper(rs[j]) || rs[j] == '/' || isDigit(rs[j])) {
				j++
			}
			try("ASSET", j-i)
		}
		if bestLen == 0 {
			res.Err = true
			// skip the offending character (recovery is not modelled; the verdict is already "invalid")
			bestLen, bestKind = 1, "ERROR"
		}
		if bestKind != "WS" && bestKind != "COMMENT" && bestKind != "ERROR" {
			res.Toks = append(res.Toks, Tok{Kind: bestKind, Text: string(rs[i : i+bestLen]), Start: i, End: i + bestLen, Line: line, Col: col})
		}
		for k := i; k < i+bestLen; k++ {
			if rs[k] == '\n' {
				line++
				col = 0
			} else {
				col++
			}
		}
		i += bestLen
	}
	return res
}

// ---------------------------------------------------------------------------------------
// Earley recognizer

type prod struct {
	lhs string
	rhs []string
}

var grammar []prod
var nonterm = map[string]bool{}

func addProd(lhs string, alts ...string) {
	nonterm[lhs] = true
	for _, a := range alts {
		var rhs []string
		if strings.TrimSpace(a) != "" {
			rhs = strings.Fields(a)
		}
		grammar = append(grammar, prod{lhs, rhs})
	}
}

func init() {
	addProd("program", "varsDeclOpt statements")
	addProd("varsDeclOpt", "", "VARS LBRACE varDecls RBRACE")
	addProd("varDecls", "", "varDecls varDecl")
	addProd("varDecl", "IDENTIFIER VARIABLE_NAME", "IDENTIFIER VARIABLE_NAME EQ functionCall")
	addProd("statements", "", "statements statement")
	addProd("functionCall", "fnName LPARENS RPARENS", "fnName LPARENS args RPARENS")
	addProd("fnName", "OVERDRAFT", "IDENTIFIER")
	addProd("args", "valueExpr", "args COMMA valueExpr")
	addProd("valueExpr", "VARIABLE_NAME", "ASSET", "STRING", "ACCOUNT", "NUMBER", "monetaryLit", "portion",
		"valueExpr PLUS valueExpr", "valueExpr MINUS valueExpr")
	addProd("monetaryLit", "LBRACKET valueExpr valueExpr RBRACKET")
	addProd("portion", "RATIO", "PERCENTAGE")
	addProd("sentAllLit", "LBRACKET valueExpr STAR RBRACKET")
	addProd("allotment", "portion", "VARIABLE_NAME", "REMAINING")
	addProd("source",
		"valueExpr ALLOWING UNBOUNDED OVERDRAFT",
		"valueExpr ALLOWING OVERDRAFT UP TO valueExpr",
		"valueExpr",
		"LBRACE allotSrcs RBRACE",
		"LBRACE sources RBRACE",
		"MAX valueExpr FROM source")
	addProd("allotSrcs", "allotSrc", "allotSrcs allotSrc")
	addProd("allotSrc", "allotment FROM source")
	addProd("sources", "", "sources source")
	addProd("kod", "TO destination", "KEPT")
	addProd("inorderClause", "MAX valueExpr kod")
	addProd("inorderClauses", "", "inorderClauses inorderClause")
	addProd("destination", "valueExpr", "LBRACE allotDsts RBRACE", "LBRACE inorderClauses REMAINING kod RBRACE")
	addProd("allotDsts", "allotDst", "allotDsts allotDst")
	addProd("allotDst", "allotment kod")
	addProd("sentValue", "valueExpr", "sentAllLit")
	addProd("statement",
		"SEND sentValue LPARENS SOURCE EQ source DESTINATION EQ destination RPARENS",
		"SAVE sentValue FROM valueExpr",
		"functionCall")
}

type item struct {
	p, dot, origin int
}

// Recognize reports whether the token kinds derive from `program`.
func Recognize(kinds []string) bool {
	n := len(kinds)
	sets := make([]map[item]bool, n+1)
	order := make([][]item, n+1)
	for i := range sets {
		sets[i] = map[item]bool{}
	}
	add := func(k int, it item) {
		if !sets[k][it] {
			sets[k][it] = true
			order[k] = append(order[k], it)
		}
	}
	// nullable non-terminals (fixpoint)
	nullable := map[string]bool{}
	for changed := true; changed; {
		changed = false
		for _, p := range grammar {
			if nullable[p.lhs] {
				continue
			}
			all := true
			for _, s := range p.rhs {
				if !nullable[s] {
					all = false
					break
				}
			}
			if all {
				nullable[p.lhs] = true
				changed = true
			}
		}
	}
	for pi, p := range grammar {
		if p.lhs == "program" {
			add(0, item{pi, 0, 0})
		}
	}
	for k := 0; k <= n; k++ {
		for idx := 0; idx < len(order[k]); idx++ {
			it := order[k][idx]
			p := grammar[it.p]
			if it.dot < len(p.rhs) {
				sym := p.rhs[it.dot]
				if nonterm[sym] {
					for pi, q := range grammar {
						if q.lhs == sym {
							add(k, item{pi, 0, k})
						}
					}
					if nullable[sym] {
						add(k, item{it.p, it.dot + 1, it.origin})
					}
				} else if k < n && kinds[k] == sym {
					add(k+1, item{it.p, it.dot + 1, it.origin})
				}
			} else {
				for _, jt := range order[it.origin] {
					q := grammar[jt.p]
					if jt.dot < len(q.rhs) && q.rhs[jt.dot] == p.lhs {
						add(k, item{jt.p, jt.dot + 1, jt.origin})
					}
				}
			}
		}
	}
	for it := range sets[n] {
		p := grammar[it.p]
		if p.lhs == "program" && it.dot == len(p.rhs) && it.origin == 0 {
			return true
		}
	}
	return false
}

// InLanguage: (valid, modelled). modelled is false when the verdict relies on lexer
// behaviour the reference does not model.
func InLanguage(text string) (bool, bool) {
	lr := Lex(text)
	if lr.Unmodelled {
		return false, false
	}
	if lr.Err {
		return false, true
	}
	kinds := make([]string, len(lr.Toks))
	for i, t := range lr.Toks {
		kinds[i] = t.Kind
	}
	return Recognize(kinds), true
}
