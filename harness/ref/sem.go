// Package ref holds the reference models: the arbitrary-precision semantics of numscript on
// the harness's own AST (this file), reference syntax and reference static rules.
// The models are deliberately boring; each property consults only the clauses its
// statement asserts.
package ref

import (
	"math/big"
	"regexp"
	"sort"
	"strings"

	"github.com/formancehq/numscript/internal/verifmc/gen"
)

// Error classes are named after what the property statements enumerate; they map onto the
// Go type names of the interpreter's error values.
const (
	EMissingFunds       = "MissingFundsErr"
	ENegativeAmount     = "NegativeAmountErr"
	EAllotmentSum       = "InvalidAllotmentSum"
	EUnboundedInSendAll = "InvalidUnboundedInSendAll"
	EAllotmentInSendAll = "InvalidAllotmentInSendAll"
	EMismatchedCurrency = "MismatchedCurrencyError"
	ETypeError          = "TypeError"
	EUnboundVariable    = "UnboundVariableErr"
	EMissingVariable    = "MissingVariableErr"
	EBadPortion         = "BadPortionParsingErr"
	EInvalidNumber      = "InvalidNumberLiteral"
	EInvalidMonetary    = "InvalidMonetaryLiteral"
	EMetadataNotFound   = "MetadataNotFound"
	ENegativeBalance    = "NegativeBalanceError"
	EExperimental       = "ExperimentalFeature"
	EUnboundFunction    = "UnboundFunctionErr"
	EBadArity           = "BadArityErr"
	EInvalidType        = "InvalidTypeErr"
	// EUnspecified: the statements of the properties do not say what happens; oracles stay silent.
	EUnspecified = "?"
)

const KEPT = "\x00kept"

type Inputs struct {
	Vars          map[string]string
	Bal           map[string]map[string]*big.Int // account -> asset -> amount
	Meta          map[string]map[string]string
	OverdraftFlag bool
}

type Value interface{}
type (
	VAcct    string
	VAsset   string
	VStr     string
	VNum     struct{ N *big.Int }
	VMon     struct {
		Asset string
		Amt   *big.Int
	}
	VPortion struct{ R *big.Rat }
)

// Render is the text a value is stored as in account metadata (and what tx metadata unquotes to).
func Render(v Value) string {
	switch v := v.(type) {
	case VAcct:
		return string(v)
	case VAsset:
		return string(v)
	case VStr:
		return string(v)
	case VNum:
		return v.N.String()
	case VMon:
		return v.Asset + " " + v.Amt.String()
	case VPortion:
		return v.R.Num().String() + "/" + v.R.Denom().String()
	}
	return "?"
}

func TypeOf(v Value) string {
	switch v.(type) {
	case VAcct:
		return "account"
	case VAsset:
		return "asset"
	case VStr:
		return "string"
	case VNum:
		return "number"
	case VMon:
		return "monetary"
	case VPortion:
		return "portion"
	}
	return "?"
}

type Unit struct {
	Acct string
	Amt  *big.Int
}

type StmtResult struct {
	Kind    string // "send" | "sendall" | "save" | "call"
	Asset   string
	Sent    *big.Int // amount drawn (== amount distributed)
	KeptAmt *big.Int
	Draws   []Unit // ordered, zero entries dropped
	Dists   []Unit // ordered, zero entries dropped; Acct == KEPT for kept shares
	Flow    map[[2]string]*big.Int
	// non-triviality markers
	Contributors int  // distinct accounts that gave > 0
	CapBinding   bool // some cap / balance limit was binding
	Shortfall    bool // some account could not give all that was asked of it
}

type Result struct {
	Err      string // "" on success; EUnspecified when the statements are silent
	ErrStmt  int    // index of the failing statement (-1: variables)
	Stmts    []StmtResult
	TxMeta   map[string]Value
	AcctMeta map[string]map[string]string
	Final    map[string]map[string]*big.Int
	// Reads: every (account, asset) balance the semantics consulted, in order (for C10)
	Reads [][2]string
}

type machine struct {
	in    Inputs
	vars  map[string]Value
	V     map[string]map[string]*big.Int
	res   *Result
	asset string
	given map[string]*big.Int
	cur   *StmtResult
}

type merr struct{ kind string }

func fail(kind string) *merr { return &merr{kind} }

// read: a balance consulted to decide something (what a source can give, a balance() /
// overdraft() origin, a save) - logged for C10.
func (m *machine) read(acct, asset string) *big.Int {
	m.res.Reads = append(m.res.Reads, [2]string{acct, asset})
	return m.bal(acct, asset)
}

func (m *machine) bal(acct, asset string) *big.Int {
	a, ok := m.V[acct]
	if !ok {
		a = map[string]*big.Int{}
		m.V[acct] = a
	}
	b, ok := a[asset]
	if !ok {
		b = new(big.Int)
		a[asset] = b
	}
	return b
}

func cloneBal(b map[string]map[string]*big.Int) map[string]map[string]*big.Int {
	out := map[string]map[string]*big.Int{}
	for a, m := range b {
		out[a] = map[string]*big.Int{}
		for k, v := range m {
			out[a][k] = new(big.Int).Set(v)
		}
	}
	return out
}

// Run evaluates the reference semantics.
func Run(p *gen.Program, in Inputs) *Result {
	m := &machine{in: in, vars: map[string]Value{}, V: cloneBal(in.Bal),
		res: &Result{TxMeta: map[string]Value{}, AcctMeta: map[string]map[string]string{}, ErrStmt: -1}}
	if e := m.declare(p); e != nil {
		m.res.Err = e.kind
		return m.res
	}
	for i, s := range p.Stmts {
		if e := m.stmt(s); e != nil {
			m.res.Err = e.kind
			m.res.ErrStmt = i
			m.res.Stmts = nil
			m.res.TxMeta = map[string]Value{}
			m.res.AcctMeta = map[string]map[string]string{}
			return m.res
		}
	}
	m.res.Final = m.V
	return m.res
}

var percentRe = regexp.MustCompile(`^([0-9]+)(?:[.]([0-9]+))?%$`)
var fractionRe = regexp.MustCompile(`^([0-9]+) ?/ ?([0-9]+)$`)

// PortionOfText gives the exact base-ten meaning of a portion text (nil if not a portion text).
// Independent of the implementation: decimal digits only, never base auto-detection.
func PortionOfText(s string) *big.Rat {
	dec := func(d string) *big.Int {
		if len(d) > 60 {
			// long numerals: the digit-by-digit loop below is quadratic
			n, _ := new(big.Int).SetString(d, 10)
			return n
		}
		n := new(big.Int)
		ten := big.NewInt(10)
		for _, c := range d {
			n.Mul(n, ten)
			n.Add(n, big.NewInt(int64(c-'0')))
		}
		return n
	}
	if mm := percentRe.FindStringSubmatch(s); mm != nil {
		num := dec(mm[1] + mm[2])
		den := new(big.Int).Exp(big.NewInt(10), big.NewInt(int64(2+len(mm[2]))), nil)
		return new(big.Rat).SetFrac(num, den)
	}
	if mm := fractionRe.FindStringSubmatch(s); mm != nil {
		den := dec(mm[2])
		if den.Sign() == 0 {
			return nil
		}
		return new(big.Rat).SetFrac(dec(mm[1]), den)
	}
	return nil
}

var acctRe = regexp.MustCompile(`^[a-zA-Z0-9_-]+(:[a-zA-Z0-9_-]+)*$`)
var zeroDenRe = regexp.MustCompile(`^[0-9]+ ?/ ?0+$`)
var intRe = regexp.MustCompile(`^[+-]?[0-9]+$`)

func parseInt(s string) *big.Int {
	if !intRe.MatchString(s) {
		return nil
	}
	n, ok := new(big.Int).SetString(s, 10)
	if !ok {
		return nil
	}
	return n
}

// ParseVar is the reference reading of a variable / metadata text at a declared type.
func ParseVar(typ, raw string) (Value, string) {
	switch typ {
	case "monetary":
		parts := strings.Split(raw, " ")
		if len(parts) != 2 {
			return nil, EInvalidMonetary
		}
		n := parseInt(parts[1])
		if n == nil {
			return nil, EInvalidNumber
		}
		return VMon{Asset: parts[0], Amt: n}, ""
	case "account":
		if !acctRe.MatchString(raw) {
			// a text outside the account grammar: the properties do not say what it denotes
			return nil, EUnspecified
		}
		return VAcct(raw), ""
	case "asset":
		return VAsset(raw), ""
	case "string":
		return VStr(raw), ""
	case "number":
		n := parseInt(raw)
		if n == nil {
			return nil, EInvalidNumber
		}
		return VNum{n}, ""
	case "portion":
		r := PortionOfText(raw)
		if r == nil || r.Sign() < 0 || r.Cmp(big.NewRat(1, 1)) > 0 {
			return nil, EBadPortion
		}
		return VPortion{r}, ""
	}
	return nil, EInvalidType
}

func (m *machine) declare(p *gen.Program) *merr {
	for _, d := range p.Vars {
		if d.Origin == nil {
			raw, ok := m.in.Vars[d.Name.Name]
			if !ok {
				return fail(EMissingVariable)
			}
			v, e := ParseVar(d.Type.Name, raw)
			if e != "" {
				return fail(e)
			}
			m.vars[d.Name.Name] = v
			continue
		}
		var args []Value
		for _, a := range d.Origin.Args {
			v, e := m.eval(a)
			if e != nil {
				return e
			}
			args = append(args, v)
		}
		switch d.Origin.Name {
		case "meta":
			if len(args) != 2 {
				return fail(EBadArity)
			}
			acct, ok1 := args[0].(VAcct)
			key, ok2 := args[1].(VStr)
			if !ok1 || !ok2 {
				return fail(ETypeError)
			}
			raw, ok := m.in.Meta[string(acct)][string(key)]
			if !ok {
				return fail(EMetadataNotFound)
			}
			v, e := ParseVar(d.Type.Name, raw)
			if e != "" {
				return fail(e)
			}
			m.vars[d.Name.Name] = v
		case "balance", "overdraft":
			if d.Origin.Name == "overdraft" && !m.in.OverdraftFlag {
				return fail(EExperimental)
			}
			if len(args) != 2 {
				return fail(EBadArity)
			}
			acct, ok1 := args[0].(VAcct)
			asset, ok2 := args[1].(VAsset)
			if !ok1 || !ok2 {
				return fail(ETypeError)
			}
			// the balance of @world is never requested (C10): whatever the ledger holds for it, a
			// balance() / overdraft() on it sees 0
			b := new(big.Int)
			if string(acct) != "world" {
				b.Set(m.read(string(acct), string(asset)))
			}
			if d.Origin.Name == "balance" {
				if b.Sign() < 0 {
					return fail(ENegativeBalance)
				}
			} else {
				if b.Sign() > 0 {
					b.SetInt64(0)
				} else {
					b.Neg(b)
				}
			}
			m.vars[d.Name.Name] = VMon{Asset: string(asset), Amt: b}
		default:
			return fail(EUnboundFunction)
		}
	}
	return nil
}

func (m *machine) eval(e gen.Expr) (Value, *merr) {
	switch e := e.(type) {
	case *gen.Var:
		v, ok := m.vars[e.Name]
		if !ok {
			return nil, fail(EUnboundVariable)
		}
		return v, nil
	case *gen.AssetLit:
		return VAsset(e.S), nil
	case *gen.StrLit:
		return VStr(e.S), nil
	case *gen.AcctLit:
		return VAcct(e.Name), nil
	case *gen.NumLit:
		n := parseInt(e.Text)
		if n == nil {
			return nil, fail(EUnspecified)
		}
		return VNum{n}, nil
	case *gen.PortionLit:
		r := PortionOfText(e.Text)
		if r == nil {
			if zeroDenRe.MatchString(e.Text) {
				return nil, fail(EBadPortion) // n/0: an invalid portion
			}
			return nil, fail(EUnspecified)
		}
		return VPortion{r}, nil
	case *gen.MonLit:
		a, err := m.eval(e.Asset)
		if err != nil {
			return nil, err
		}
		as, ok := a.(VAsset)
		if !ok {
			return nil, fail(ETypeError)
		}
		n, err := m.eval(e.Amt)
		if err != nil {
			return nil, err
		}
		nn, ok := n.(VNum)
		if !ok {
			return nil, fail(ETypeError)
		}
		return VMon{Asset: string(as), Amt: nn.N}, nil
	case *gen.Infix:
		l, err := m.eval(e.L)
		if err != nil {
			return nil, err
		}
		switch l := l.(type) {
		case VNum:
			r, err := m.eval(e.R)
			if err != nil {
				return nil, err
			}
			rr, ok := r.(VNum)
			if !ok {
				return nil, fail(ETypeError)
			}
			if e.Op == "+" {
				return VNum{new(big.Int).Add(l.N, rr.N)}, nil
			}
			return VNum{new(big.Int).Sub(l.N, rr.N)}, nil
		case VMon:
			r, err := m.eval(e.R)
			if err != nil {
				return nil, err
			}
			rr, ok := r.(VMon)
			if !ok {
				return nil, fail(ETypeError)
			}
			if rr.Asset != l.Asset {
				return nil, fail(EMismatchedCurrency)
			}
			if e.Op == "+" {
				return VMon{l.Asset, new(big.Int).Add(l.Amt, rr.Amt)}, nil
			}
			return VMon{l.Asset, new(big.Int).Sub(l.Amt, rr.Amt)}, nil
		default:
			return nil, fail(ETypeError)
		}
	}
	return nil, fail(EUnspecified)
}

func (m *machine) evalAcct(e gen.Expr) (string, *merr) {
	v, err := m.eval(e)
	if err != nil {
		return "", err
	}
	a, ok := v.(VAcct)
	if !ok {
		return "", fail(ETypeError)
	}
	return string(a), nil
}

func (m *machine) evalMonOfAsset(e gen.Expr) (*big.Int, *merr) {
	v, err := m.eval(e)
	if err != nil {
		return nil, err
	}
	mon, ok := v.(VMon)
	if !ok {
		return nil, fail(ETypeError)
	}
	if mon.Asset != m.asset {
		return nil, fail(EMismatchedCurrency)
	}
	return mon.Amt, nil
}

func (m *machine) stmt(s gen.Stmt) *merr {
	switch s := s.(type) {
	case *gen.Call:
		var args []Value
		for _, a := range s.Args {
			v, e := m.eval(a)
			if e != nil {
				return e
			}
			args = append(args, v)
		}
		sr := StmtResult{Kind: "call"}
		switch s.Name {
		case "set_tx_meta":
			if len(args) != 2 {
				return fail(EBadArity)
			}
			k, ok := args[0].(VStr)
			if !ok {
				return fail(ETypeError)
			}
			m.res.TxMeta[string(k)] = args[1]
		case "set_account_meta":
			if len(args) != 3 {
				return fail(EBadArity)
			}
			a, ok1 := args[0].(VAcct)
			k, ok2 := args[1].(VStr)
			if !ok1 || !ok2 {
				return fail(ETypeError)
			}
			am, ok := m.res.AcctMeta[string(a)]
			if !ok {
				am = map[string]string{}
				m.res.AcctMeta[string(a)] = am
			}
			am[string(k)] = Render(args[2])
		default:
			return fail(EUnboundFunction)
		}
		m.res.Stmts = append(m.res.Stmts, sr)
		return nil

	case *gen.Save:
		asset, amt, e := m.sent(s.Sent)
		if e != nil {
			return e
		}
		acct, e := m.evalAcct(s.Acct)
		if e != nil {
			return e
		}
		b := m.read(acct, asset)
		if amt == nil {
			if b.Sign() > 0 {
				b.SetInt64(0)
			}
		} else {
			if amt.Sign() < 0 {
				return fail(ENegativeAmount)
			}
			if b.Sign() > 0 {
				b.Sub(b, amt)
				if b.Sign() < 0 {
					b.SetInt64(0)
				}
			}
		}
		m.res.Stmts = append(m.res.Stmts, StmtResult{Kind: "save", Asset: asset})
		return nil

	case *gen.Send:
		asset, amt, e := m.sent(s.Sent)
		if e != nil {
			return e
		}
		m.asset = asset
		m.given = map[string]*big.Int{}
		sr := StmtResult{Kind: "send", Asset: asset, Flow: map[[2]string]*big.Int{}, KeptAmt: new(big.Int)}
		m.cur = &sr
		var total *big.Int
		if amt == nil {
			sr.Kind = "sendall"
			t, e := m.drawAll(s.Src)
			if e != nil {
				return e
			}
			total = t
		} else {
			if amt.Sign() < 0 {
				return fail(ENegativeAmount)
			}
			got, e := m.drawUpTo(s.Src, amt)
			if e != nil {
				return e
			}
			if got.Cmp(amt) != 0 {
				return fail(EMissingFunds)
			}
			total = new(big.Int).Set(amt)
		}
		sr.Sent = total
		if e := m.distribute(s.Dst, total); e != nil {
			return e
		}
		m.pair(&sr)
		contributors := map[string]bool{}
		for _, d := range sr.Draws {
			contributors[d.Acct] = true
		}
		sr.Contributors = len(contributors)
		// apply the flows to the balances
		keys := make([][2]string, 0, len(sr.Flow))
		for k := range sr.Flow {
			keys = append(keys, k)
		}
		sort.Slice(keys, func(i, j int) bool {
			if keys[i][0] != keys[j][0] {
				return keys[i][0] < keys[j][0]
			}
			return keys[i][1] < keys[j][1]
		})
		for _, k := range keys {
			f := sr.Flow[k]
			sb := m.bal(k[0], asset)
			sb.Sub(sb, f)
			db := m.bal(k[1], asset)
			db.Add(db, f)
		}
		m.res.Stmts = append(m.res.Stmts, sr)
		return nil
	}
	return fail(EUnspecified)
}

func (m *machine) sent(s gen.Sent) (string, *big.Int, *merr) {
	switch s := s.(type) {
	case *gen.SentAll:
		v, e := m.eval(s.Asset)
		if e != nil {
			return "", nil, e
		}
		a, ok := v.(VAsset)
		if !ok {
			return "", nil, fail(ETypeError)
		}
		return string(a), nil, nil
	case *gen.SentLit:
		v, e := m.eval(s.E)
		if e != nil {
			return "", nil, e
		}
		mon, ok := v.(VMon)
		if !ok {
			return "", nil, fail(ETypeError)
		}
		return mon.Asset, mon.Amt, nil
	}
	return "", nil, fail(EUnspecified)
}

func maxZero(x *big.Int) *big.Int {
	if x.Sign() < 0 {
		return new(big.Int)
	}
	return new(big.Int).Set(x)
}

func minInt(a, b *big.Int) *big.Int {
	if a.Cmp(b) < 0 {
		return new(big.Int).Set(a)
	}
	return new(big.Int).Set(b)
}

// availOf: what the account can still give in this statement (nil = without limit).
func (m *machine) availOf(acct string, grant *big.Int) *big.Int {
	if acct == "world" || grant == nil {
		return nil
	}
	a := new(big.Int).Add(m.read(acct, m.asset), grant)
	if g, ok := m.given[acct]; ok {
		a.Sub(a, g)
	}
	return maxZero(a)
}

func (m *machine) give(acct string, amt *big.Int) {
	if amt.Sign() == 0 {
		return
	}
	g, ok := m.given[acct]
	if !ok {
		g = new(big.Int)
		m.given[acct] = g
	}
	g.Add(g, amt)
	m.cur.Draws = append(m.cur.Draws, Unit{acct, new(big.Int).Set(amt)})
}

var zero = new(big.Int)

func (m *machine) drawAcct(acct string, grant *big.Int, need *big.Int) *big.Int {
	av := m.availOf(acct, grant)
	var g *big.Int
	if av == nil {
		g = new(big.Int).Set(need)
	} else {
		g = minInt(need, av)
		if g.Cmp(need) < 0 {
			m.cur.Shortfall = true
			m.cur.CapBinding = true
		}
	}
	m.give(acct, g)
	return g
}

func (m *machine) drawUpTo(s gen.Source, need *big.Int) (*big.Int, *merr) {
	switch s := s.(type) {
	case *gen.SrcAccount:
		acct, e := m.evalAcct(s.E)
		if e != nil {
			return nil, e
		}
		return m.drawAcct(acct, zero, need), nil
	case *gen.SrcOverdraft:
		var grant *big.Int
		if s.Bounded != nil {
			g, e := m.evalMonOfAsset(s.Bounded)
			if e != nil {
				return nil, e
			}
			grant = g
		}
		acct, e := m.evalAcct(s.Addr)
		if e != nil {
			return nil, e
		}
		return m.drawAcct(acct, grant, need), nil
	case *gen.SrcInorder:
		left := new(big.Int).Set(need)
		for _, sub := range s.Srcs {
			g, e := m.drawUpTo(sub, left)
			if e != nil {
				return nil, e
			}
			left.Sub(left, g)
		}
		return new(big.Int).Sub(need, left), nil
	case *gen.SrcCapped:
		c, e := m.evalMonOfAsset(s.Cap)
		if e != nil {
			return nil, e
		}
		c = maxZero(c)
		if c.Cmp(need) < 0 {
			m.cur.CapBinding = true
		}
		return m.drawUpTo(s.From, minInt(need, c))
	case *gen.SrcAllot:
		var as []gen.Allot
		for _, it := range s.Items {
			as = append(as, it.A)
		}
		shares, e := m.allot(need, as)
		if e != nil {
			return nil, e
		}
		for i, it := range s.Items {
			g, e := m.drawUpTo(it.From, shares[i])
			if e != nil {
				return nil, e
			}
			if g.Cmp(shares[i]) != 0 {
				return nil, fail(EMissingFunds)
			}
		}
		return new(big.Int).Set(need), nil
	}
	return nil, fail(EUnspecified)
}

func (m *machine) drawAll(s gen.Source) (*big.Int, *merr) {
	switch s := s.(type) {
	case *gen.SrcAccount:
		acct, e := m.evalAcct(s.E)
		if e != nil {
			return nil, e
		}
		if acct == "world" {
			return nil, fail(EUnboundedInSendAll)
		}
		g := m.availOf(acct, zero)
		m.give(acct, g)
		return g, nil
	case *gen.SrcOverdraft:
		var grant *big.Int
		if s.Bounded != nil {
			g, e := m.evalMonOfAsset(s.Bounded)
			if e != nil {
				return nil, e
			}
			grant = g
		}
		acct, e := m.evalAcct(s.Addr)
		if e != nil {
			return nil, e
		}
		if acct == "world" || grant == nil {
			return nil, fail(EUnboundedInSendAll)
		}
		g := m.availOf(acct, grant)
		m.give(acct, g)
		return g, nil
	case *gen.SrcInorder:
		tot := new(big.Int)
		for _, sub := range s.Srcs {
			g, e := m.drawAll(sub)
			if e != nil {
				return nil, e
			}
			tot.Add(tot, g)
		}
		return tot, nil
	case *gen.SrcCapped:
		c, e := m.evalMonOfAsset(s.Cap)
		if e != nil {
			return nil, e
		}
		return m.drawUpTo(s.From, maxZero(c))
	case *gen.SrcAllot:
		return nil, fail(EAllotmentInSendAll)
	}
	return nil, fail(EUnspecified)
}

// Allot is the reference split: floor shares, leftover units to the earliest clauses.
// portions[i] == nil marks the `remaining` clause. Returns nil, kind on rejection.
func Allot(total *big.Int, portions []*big.Rat) ([]*big.Int, string) {
	sum := new(big.Rat)
	rem := -1
	for i, p := range portions {
		if p == nil {
			if rem >= 0 {
				return nil, EUnspecified // two `remaining` clauses: not specified
			}
			rem = i
			continue
		}
		sum.Add(sum, p)
	}
	ps := make([]*big.Rat, len(portions))
	copy(ps, portions)
	one := big.NewRat(1, 1)
	if rem >= 0 {
		if sum.Cmp(one) > 0 {
			return nil, EUnspecified // the others exceed one: what `remaining` means is not specified
		}
		ps[rem] = new(big.Rat).Sub(one, sum)
	} else if sum.Cmp(one) != 0 {
		return nil, EAllotmentSum
	}
	out := make([]*big.Int, len(ps))
	allocated := new(big.Int)
	t := new(big.Rat).SetInt(total)
	for i, p := range ps {
		prod := new(big.Rat).Mul(p, t)
		fl := new(big.Int).Div(prod.Num(), prod.Denom()) // Euclidean == floor for positive denominators
		out[i] = fl
		allocated.Add(allocated, fl)
	}
	left := new(big.Int).Sub(total, allocated)
	for i := range out {
		if left.Sign() <= 0 {
			break
		}
		out[i].Add(out[i], big.NewInt(1))
		left.Sub(left, big.NewInt(1))
	}
	return out, ""
}

func (m *machine) allot(total *big.Int, as []gen.Allot) ([]*big.Int, *merr) {
	ps := make([]*big.Rat, len(as))
	for i, a := range as {
		switch a := a.(type) {
		case *gen.Remaining:
			ps[i] = nil
		case *gen.PortionLit:
			r := PortionOfText(a.Text)
			if r == nil {
				if zeroDenRe.MatchString(a.Text) {
					return nil, fail(EBadPortion)
				}
				return nil, fail(EUnspecified)
			}
			ps[i] = r
		case *gen.Var:
			v, e := m.eval(a)
			if e != nil {
				return nil, e
			}
			pv, ok := v.(VPortion)
			if !ok {
				return nil, fail(ETypeError)
			}
			ps[i] = pv.R
		}
	}
	out, kind := Allot(total, ps)
	if kind != "" {
		return nil, fail(kind)
	}
	return out, nil
}

func (m *machine) receive(acct string, amt *big.Int) {
	if amt.Sign() == 0 {
		return
	}
	m.cur.Dists = append(m.cur.Dists, Unit{acct, new(big.Int).Set(amt)})
}

func (m *machine) route(k gen.KoD, amt *big.Int) *merr {
	switch k := k.(type) {
	case *gen.Kept:
		m.receive(KEPT, amt)
		return nil
	case *gen.To:
		return m.distribute(k.D, amt)
	}
	return fail(EUnspecified)
}

func (m *machine) distribute(d gen.Dest, t *big.Int) *merr {
	switch d := d.(type) {
	case *gen.DstAccount:
		acct, e := m.evalAcct(d.E)
		if e != nil {
			return e
		}
		m.receive(acct, t)
		return nil
	case *gen.DstInorder:
		left := new(big.Int).Set(t)
		for _, c := range d.Clauses {
			capv, e := m.evalMonOfAsset(c.Cap)
			if e != nil {
				return e
			}
			amt := minInt(maxZero(capv), left)
			// a clause that receives nothing is still visited (nothing is posted for a zero
			// amount, but an ill-formed nested destination is reported whatever the amount)
			if e := m.route(c.To, amt); e != nil {
				return e
			}
			left.Sub(left, amt)
		}
		return m.route(d.Remaining, left)
	case *gen.DstAllot:
		var as []gen.Allot
		for _, it := range d.Items {
			as = append(as, it.A)
		}
		shares, e := m.allot(t, as)
		if e != nil {
			return e
		}
		for i, it := range d.Items {
			if e := m.route(it.To, shares[i]); e != nil {
				return e
			}
		}
		return nil
	}
	return fail(EUnspecified)
}

// pair matches the draw list with the distribution list unit by unit, first come first
// served; kept shares consume draw units without producing a flow.
func (m *machine) pair(sr *StmtResult) { Pair(sr) }

// Pair fills sr.Flow and sr.KeptAmt from sr.Draws and sr.Dists.
func Pair(sr *StmtResult) {
	di := 0
	var dleft *big.Int
	if len(sr.Draws) > 0 {
		dleft = new(big.Int).Set(sr.Draws[0].Amt)
	}
	for _, r := range sr.Dists {
		need := new(big.Int).Set(r.Amt)
		for need.Sign() > 0 && di < len(sr.Draws) {
			take := minInt(need, dleft)
			if r.Acct == KEPT {
				sr.KeptAmt.Add(sr.KeptAmt, take)
			} else if take.Sign() > 0 {
				k := [2]string{sr.Draws[di].Acct, r.Acct}
				f, ok := sr.Flow[k]
				if !ok {
					f = new(big.Int)
					sr.Flow[k] = f
				}
				f.Add(f, take)
			}
			need.Sub(need, take)
			dleft.Sub(dleft, take)
			if dleft.Sign() == 0 {
				di++
				if di < len(sr.Draws) {
					dleft = new(big.Int).Set(sr.Draws[di].Amt)
				}
			}
		}
	}
}

// Grants resolves, through the variable environment, which accounts the script writes with
// `allowing unbounded overdraft` and the largest bounded overdraft it grants each
// (account, asset). ok is false when some address / amount cannot be evaluated.
func Grants(p *gen.Program, in Inputs) (unbounded map[string]bool, grants map[[2]string]*big.Int, ok bool) {
	m := &machine{in: in, vars: map[string]Value{}, V: cloneBal(in.Bal),
		res: &Result{TxMeta: map[string]Value{}, AcctMeta: map[string]map[string]string{}}}
	unbounded = map[string]bool{}
	grants = map[[2]string]*big.Int{}
	if e := m.declare(p); e != nil {
		return nil, nil, false
	}
	ok = true
	var walk func(s gen.Source)
	walk = func(s gen.Source) {
		switch s := s.(type) {
		case *gen.SrcOverdraft:
			a, e := m.evalAcct(s.Addr)
			if e != nil {
				ok = false
				return
			}
			if s.Bounded == nil {
				unbounded[a] = true
				return
			}
			v, e := m.eval(s.Bounded)
			if e != nil {
				ok = false
				return
			}
			mon, isMon := v.(VMon)
			if !isMon {
				ok = false
				return
			}
			k := [2]string{a, mon.Asset}
			if old, has := grants[k]; !has || mon.Amt.Cmp(old) > 0 {
				grants[k] = mon.Amt
			}
		case *gen.SrcInorder:
			for _, x := range s.Srcs {
				walk(x)
			}
		case *gen.SrcCapped:
			walk(s.From)
		case *gen.SrcAllot:
			for _, it := range s.Items {
				walk(it.From)
			}
		}
	}
	for _, st := range p.Stmts {
		if sd, isSend := st.(*gen.Send); isSend {
			walk(sd.Src)
		}
	}
	return
}

// SaveParams evaluates the parameters of a save statement (amt == nil means `save [A *]`).
func SaveParams(p *gen.Program, in Inputs, s *gen.Save) (acct, asset string, amt *big.Int, ok bool) {
	m := &machine{in: in, vars: map[string]Value{}, V: cloneBal(in.Bal),
		res: &Result{TxMeta: map[string]Value{}, AcctMeta: map[string]map[string]string{}}}
	if e := m.declare(p); e != nil {
		return "", "", nil, false
	}
	asset, amt, e := m.sent(s.Sent)
	if e != nil {
		return "", "", nil, false
	}
	acct, e = m.evalAcct(s.Acct)
	if e != nil {
		return "", "", nil, false
	}
	return acct, asset, amt, true
}
