// Package verifrt is the runtime of instrumented builds (C11): a cooperative scheduler that
// owns every interleaving of the instrumented code at its yield points, and the map-order
// seam that owns every map iteration order. Both are driven by a Chooser (the explorer).
// Without an active scheduler / chooser, Yield is a no-op and MapOrder returns the keys in
// canonical (sorted) order.
package verifrt

import (
	"fmt"
	"runtime/debug"
	"sort"
)

type Chooser interface {
	ChooseW(n int, costs []int) int
}

// ---------------------------------------------------------------------------------------
// scheduler

type thread struct {
	resume chan struct{}
	done   bool
	panic  string
}

type Scheduler struct {
	ch          Chooser
	threads     []*thread
	current     int
	allDone     chan struct{}
	Level       int // 1 = function entries and loop heads, 2 = every statement
	Points      int // yield points passed in this execution
	Preemptions int
	Switches    int
	Trace       []int // thread chosen at each decision (for replay comparison)
}

var active *Scheduler

// Yield is called by instrumented code; it is a scheduling point when a scheduler is active.
func Yield() {
	if s := active; s != nil {
		s.yield()
	}
}

// Yield2 is a statement-level yield point: a scheduling point only at granularity level 2.
func Yield2() {
	if s := active; s != nil && s.Level >= 2 {
		s.yield()
	}
}

// RunThreads executes the bodies as threads under the control of ch: exactly one runs at a
// time; at every yield point ch decides whether the running thread continues (cost 0) or
// another runnable thread takes over (a preemption, cost 1). It returns the panic message of
// each thread ("" if none).
func RunThreads(ch Chooser, level int, bodies []func()) (*Scheduler, []string) {
	s := &Scheduler{ch: ch, Level: level, allDone: make(chan struct{})}
	for range bodies {
		s.threads = append(s.threads, &thread{resume: make(chan struct{})})
	}
	for i, b := range bodies {
		i, b := i, b
		go func() {
			<-s.threads[i].resume
			func() {
				defer func() {
					if r := recover(); r != nil {
						s.threads[i].panic = fmt.Sprint(r) + "\n" + string(debug.Stack())
					}
				}()
				b()
			}()
			s.finish(i)
		}()
	}
	active = s
	// the first thread to run is a free choice
	first := s.pick(-1)
	s.current = first
	s.threads[first].resume <- struct{}{}
	<-s.allDone
	active = nil
	out := make([]string, len(bodies))
	for i, t := range s.threads {
		out[i] = t.panic
	}
	return s, out
}

// pick asks the chooser. me >= 0: the running thread is still enabled (switching away from it
// is a preemption); me < 0: a free choice among the runnable threads.
func (s *Scheduler) pick(me int) int {
	var opts []int
	var costs []int
	if me >= 0 {
		opts = append(opts, me)
		costs = append(costs, 0)
	}
	for i, t := range s.threads {
		if i == me || t.done {
			continue
		}
		opts = append(opts, i)
		if me >= 0 {
			costs = append(costs, 1)
		} else {
			costs = append(costs, 0)
		}
	}
	if len(opts) == 1 {
		return opts[0]
	}
	c := s.ch.ChooseW(len(opts), costs)
	s.Trace = append(s.Trace, opts[c])
	return opts[c]
}

func (s *Scheduler) yield() {
	s.Points++
	me := s.current
	next := s.pick(me)
	if next == me {
		return
	}
	s.Preemptions++
	s.Switches++
	s.current = next
	s.threads[next].resume <- struct{}{}
	<-s.threads[me].resume
}

func (s *Scheduler) finish(me int) {
	s.threads[me].done = true
	remaining := 0
	for _, t := range s.threads {
		if !t.done {
			remaining++
		}
	}
	if remaining == 0 {
		close(s.allDone)
		return
	}
	next := s.pick(-1)
	s.Switches++
	s.current = next
	s.threads[next].resume <- struct{}{}
}

// ---------------------------------------------------------------------------------------
// map-order seam

// Instrumented / MapRangeSites are set by a file the instrumenter generates into this package.
var Instrumented bool
var MapRangeSites int

var orderChooser Chooser

// MapPoints counts the range points passed since the last SetOrderChooser.
var MapPoints int

// MaxPermKeys: maps with more keys are iterated in four orders only (canonical, reversed, two rotations).
var MaxPermKeys = 4

func SetOrderChooser(c Chooser) {
	orderChooser = c
	MapPoints = 0
}

func sortedKeys[M ~map[K]V, K comparable, V any](m M) []K {
	keys := make([]K, 0, len(m))
	for k := range m {
		keys = append(keys, k)
	}
	sort.Slice(keys, func(i, j int) bool { return fmt.Sprint(keys[i]) < fmt.Sprint(keys[j]) })
	return keys
}

// MapOrder returns the keys of m in the order this execution iterates them: canonical order
// permuted by the chooser (every non-identity pick costs one unit of its budget).
func MapOrder[M ~map[K]V, K comparable, V any](m M) []K {
	keys := sortedKeys[M, K, V](m)
	c := orderChooser
	if c == nil || len(keys) < 2 {
		return keys
	}
	if len(keys) > MaxPermKeys {
		// too many keys for all permutations: the canonical order, its reverse, and the two rotations
		// by one (so that "the first k" and "the last one" are different keys in different orders)
		MapPoints++
		switch c.ChooseW(4, []int{0, 1, 1, 1}) {
		case 1:
			out := make([]K, len(keys))
			for i, k := range keys {
				out[len(keys)-1-i] = k
			}
			return out
		case 2:
			return append(append([]K{}, keys[1:]...), keys[0])
		case 3:
			return append([]K{keys[len(keys)-1]}, keys[:len(keys)-1]...)
		}
		return keys
	}
	MapPoints++
	out := make([]K, 0, len(keys))
	rest := keys
	for len(rest) > 1 {
		costs := make([]int, len(rest))
		for i := 1; i < len(costs); i++ {
			costs[i] = 1
		}
		i := c.ChooseW(len(rest), costs)
		out = append(out, rest[i])
		rest = append(append([]K{}, rest[:i]...), rest[i+1:]...)
	}
	return append(out, rest[0])
}

// MapKeys replaces maps.Keys in instrumented builds.
func MapKeys[M ~map[K]V, K comparable, V any](m M) []K { return MapOrder[M, K, V](m) }
