package props

import (
	"fmt"
	"math/big"

	"github.com/formancehq/numscript/internal/verifmc/env"
	"github.com/formancehq/numscript/internal/verifmc/gen"
	"github.com/formancehq/numscript/internal/verifmc/mc"
	"github.com/formancehq/numscript/internal/verifmc/ref"
)

// Statement alphabet for multi-statement spaces (C01, C02, C03, C08, C09, C10): every entry
// builds a fresh statement. W is its budget cost (0 for the core alphabet).
type op struct {
	Name string
	W    int
	Mk   func() gen.Stmt
}

func sa(a string) gen.Source         { return &gen.SrcAccount{E: gen.Acct(a)} }
func da(a string) gen.Dest           { return &gen.DstAccount{E: gen.Acct(a)} }
func lst(s ...gen.Source) gen.Source { return &gen.SrcInorder{Srcs: s} }
func over(a, asset, n string) gen.Source {
	return &gen.SrcOverdraft{Addr: gen.Acct(a), Bounded: gen.Mon(asset, n)}
}
func sendN(asset, n string, s gen.Source, d gen.Dest) gen.Stmt {
	return &gen.Send{Sent: &gen.SentLit{E: gen.Mon(asset, n)}, Src: s, Dst: d}
}
func sendAllS(asset string, s gen.Source, d gen.Dest) gen.Stmt {
	return &gen.Send{Sent: &gen.SentAll{Asset: gen.Asset(asset)}, Src: s, Dst: d}
}
func saveN(asset, n, a string) gen.Stmt {
	return &gen.Save{Sent: &gen.SentLit{E: gen.Mon(asset, n)}, Acct: gen.Acct(a)}
}
func saveAll(asset, a string) gen.Stmt {
	return &gen.Save{Sent: &gen.SentAll{Asset: gen.Asset(asset)}, Acct: gen.Acct(a)}
}

func coreOps() []op {
	U := "USD"
	return []op{
		{"send1 a->x", 0, func() gen.Stmt { return sendN(U, "1", sa("a"), da("x")) }},
		{"send3 a->x", 0, func() gen.Stmt { return sendN(U, "3", sa("a"), da("x")) }},
		{"save1 a", 0, func() gen.Stmt { return saveN(U, "1", "a") }},
		{"save2 a", 0, func() gen.Stmt { return saveN(U, "2", "a") }},
		{"save* a", 0, func() gen.Stmt { return saveAll(U, "a") }},
		{"send3 a+od2->x", 0, func() gen.Stmt { return sendN(U, "3", over("a", U, "2"), da("x")) }},
		{"send3 {a world}->x", 0, func() gen.Stmt { return sendN(U, "3", lst(sa("a"), sa("world")), da("x")) }},
		{"send* a->x", 0, func() gen.Stmt { return sendAllS(U, sa("a"), da("x")) }},
		{"send2 world->a", 0, func() gen.Stmt { return sendN(U, "2", sa("world"), da("a")) }},
		{"send2 b->a", 0, func() gen.Stmt { return sendN(U, "2", sa("b"), da("a")) }},
		{"send3 {a b}->x", 0, func() gen.Stmt { return sendN(U, "3", lst(sa("a"), sa("b")), da("x")) }},
		{"send* {a b}->x", 0, func() gen.Stmt { return sendAllS(U, lst(sa("a"), sa("b")), da("x")) }},
		{"send3 {a b}->{max1 kept, x}", 0, func() gen.Stmt {
			return sendN(U, "3", lst(sa("a"), sa("b")), &gen.DstInorder{
				Clauses:   []*gen.DstClause{{Cap: gen.Mon(U, "1"), To: &gen.Kept{}}},
				Remaining: &gen.To{D: da("x")}})
		}},
		{"send2 x->a", 0, func() gen.Stmt { return sendN(U, "2", sa("x"), da("a")) }},
		{"send* a+od2->b", 0, func() gen.Stmt { return sendAllS(U, over("a", U, "2"), da("b")) }},
		{"save5 a", 0, func() gen.Stmt { return saveN(U, "5", "a") }},
		{"save0 a", 0, func() gen.Stmt { return saveN(U, "0", "a") }},
		{"save2 b", 0, func() gen.Stmt { return saveN(U, "2", "b") }},
		{"send4 {1/2 a, rem b}->x", 0, func() gen.Stmt {
			return sendN(U, "4", &gen.SrcAllot{Items: []*gen.SrcAllotItem{
				{A: gen.Port("1/2"), From: sa("a")}, {A: &gen.Remaining{}, From: sa("b")}}}, da("x"))
		}},
		{"send3 {max2 a, b}->x", 0, func() gen.Stmt {
			return sendN(U, "3", lst(&gen.SrcCapped{Cap: gen.Mon(U, "2"), From: sa("a")}, sa("b")), da("x"))
		}},
		{"send2 a->{1/2 x, 1/2 a}", 0, func() gen.Stmt {
			return sendN(U, "2", sa("a"), &gen.DstAllot{Items: []*gen.DstAllotItem{
				{A: gen.Port("1/2"), To: &gen.To{D: da("x")}}, {A: gen.Port("1/2"), To: &gen.To{D: da("a")}}}})
		}},
		{"send0 a->x", 0, func() gen.Stmt { return sendN(U, "0", sa("a"), da("x")) }},
		// deviations
		{"save-1 a", 1, func() gen.Stmt { return saveN(U, "-1", "a") }},
		{"sendEUR2 a->x", 1, func() gen.Stmt { return sendN("EUR", "2", sa("a"), da("x")) }},
		{"saveEUR1 a", 1, func() gen.Stmt { return saveN("EUR", "1", "a") }},
		{"send* a unbounded->x", 1, func() gen.Stmt {
			return sendAllS(U, &gen.SrcOverdraft{Addr: gen.Acct("a")}, da("x"))
		}},
		{"send3 a unbounded->x", 1, func() gen.Stmt {
			return sendN(U, "3", &gen.SrcOverdraft{Addr: gen.Acct("a")}, da("x"))
		}},
		{"send-1 a->x", 1, func() gen.Stmt { return sendN(U, "-1", sa("a"), da("x")) }},
	}
}

func metaOps() []op {
	call := func(name string, args ...gen.Expr) gen.Stmt { return &gen.Call{Name: name, Args: args} }
	return []op{
		{"tx k=1", 0, func() gen.Stmt { return call("set_tx_meta", gen.Str("k"), gen.Num("1")) }},
		{"tx k=@a", 0, func() gen.Stmt { return call("set_tx_meta", gen.Str("k"), gen.Acct("a")) }},
		{"tx pct=\"15% of gross\"", 0, func() gen.Stmt { return call("set_tx_meta", gen.Str("pct %d"), gen.Str("15% of gross %s")) }},
		{"tx j=[USD 1]", 0, func() gen.Stmt { return call("set_tx_meta", gen.Str("j"), gen.Mon("USD", "1")) }},
		{"am a.k=\"v\"", 0, func() gen.Stmt { return call("set_account_meta", gen.Acct("a"), gen.Str("k"), gen.Str("v")) }},
		{"am a.k=2", 0, func() gen.Stmt { return call("set_account_meta", gen.Acct("a"), gen.Str("k"), gen.Num("2")) }},
		{"am a.j=1/2", 0, func() gen.Stmt { return call("set_account_meta", gen.Acct("a"), gen.Str("j"), gen.Port("1/2")) }},
		{"am b.k=USD", 0, func() gen.Stmt { return call("set_account_meta", gen.Acct("b"), gen.Str("k"), gen.Asset("USD")) }},
	}
}

func pickOp(e *mc.Explorer, ops []op) op {
	costs := make([]int, len(ops))
	for i, o := range ops {
		costs[i] = o.W
	}
	return ops[e.ChooseW(len(ops), costs)]
}

// sheet: balances of a, b, x in USD (and optionally a in EUR)
type sheetDom struct {
	A, B, X []*big.Int
	AEur    []*big.Int
}

func (d *sheetDom) pick(in *mc.Explorer) env.Bal {
	bal := env.Bal{}
	bal["a"] = map[string]*big.Int{"USD": d.A[in.Choose(len(d.A))]}
	bal["b"] = map[string]*big.Int{"USD": d.B[in.Choose(len(d.B))]}
	bal["x"] = map[string]*big.Int{"USD": d.X[in.Choose(len(d.X))]}
	if len(d.AEur) > 0 {
		bal["a"]["EUR"] = d.AEur[in.Choose(len(d.AEur))]
	}
	return bal
}

// seqSpace enumerates all statement sequences of length 1..MaxLen over ops (total deviation
// cost <= Budget) x all sheets, and hands each case to body.
type seqSpace struct {
	Name, Bounds string
	Ops          []op
	MinLen       int
	MaxLen       int
	Budget       int
	Sheets       *sheetDom
}

type seqCase struct {
	Prog  *gen.Program
	Stmts []gen.Stmt
	Names []string
	Text  string
	PR    parsedT
}

func runSeqSpace(w *mc.Worker, sp *seqSpace, body func(c *seqCase, bal env.Bal)) {
	w.Stage(sp.Name, sp.Bounds, func() {
		w.Outer(sp.Name+"/seq", sp.Budget, func(o *mc.Explorer) {
			min := sp.MinLen
			if min < 1 {
				min = 1
			}
			n := min + o.Choose(sp.MaxLen-min+1)
			c := &seqCase{Prog: &gen.Program{}}
			for i := 0; i < n; i++ {
				p := pickOp(o, sp.Ops)
				c.Stmts = append(c.Stmts, p.Mk())
				c.Names = append(c.Names, p.Name)
			}
			c.Prog.Stmts = c.Stmts
			c.Text = gen.Text(c.Prog)
			if !w.Mine(c.Text) {
				return
			}
			w.Owned()
			pr, ok := mustParse(w, c.Text)
			if !ok {
				return
			}
			c.PR = pr
			w.Inner(0, func(in *mc.Explorer) {
				body(c, sp.Sheets.pick(in))
			})
		})
	})
}

// attribute runs every proper prefix of the script on the real interpreter and splits the
// postings of the whole run per statement. ok is false when the whole run failed or when
// some prefix's postings do not extend the previous prefix's (C09's subject, not reported here).
func attribute(c *seqCase, vars map[string]string, oc *originCase, whole *Out) (per [][]P, ok bool) {
	bal := oc.Bal
	if whole.Err != nil || whole.Panic != "" {
		return nil, false
	}
	n := len(c.Stmts)
	prev := []P{}
	for k := 1; k <= n; k++ {
		var cur []P
		if k == n {
			cur = whole.Postings
		} else {
			pp := &gen.Program{Vars: c.Prog.Vars, HasVars: c.Prog.HasVars, Stmts: c.Stmts[:k]}
			pr, good := parseQuiet(gen.Text(pp))
			if !good {
				return nil, false
			}
			o := RunReal(pr, vars, env.New(env.Exact, bal, oc.Meta), oc.Flags)
			if o.Err != nil || o.Panic != "" {
				return nil, false
			}
			cur = o.Postings
		}
		if len(cur) < len(prev) {
			return nil, false
		}
		for i := range prev {
			if prev[i].String() != cur[i].String() {
				return nil, false
			}
		}
		per = append(per, cur[len(prev):])
		prev = cur
	}
	return per, true
}

var parseCache = map[string]parsedT{}

func parseQuiet(text string) (parsedT, bool) {
	if p, ok := parseCache[text]; ok {
		return p, true
	}
	var pr parsedT
	pmsg, _ := guard(func() { pr = numscriptParse(text) })
	if pmsg != "" || len(pr.GetParsingErrors()) != 0 {
		return pr, false
	}
	if len(parseCache) > 20000 {
		parseCache = map[string]parsedT{}
	}
	parseCache[text] = pr
	return pr, true
}

// perStatementFindings compares the attributed postings of each send statement with the
// reference result of that statement.
func perStatementFindings(c *seqCase, per [][]P, model *ref.Result) []finding {
	var fs []finding
	if model.Err != "" || len(per) != len(model.Stmts) {
		return nil
	}
	savedBefore := false
	for i, st := range model.Stmts {
		if st.Kind == "save" {
			savedBefore = true
			if len(per[i]) != 0 {
				fs = append(fs, finding{"C08.save-posting", fmt.Sprintf("statement %d (save) produced postings: %s", i+1, postingsStr(per[i]))})
			}
			continue
		}
		if st.Kind == "call" {
			continue
		}
		rf := realFlows(per[i])
		mf := map[flowKey]*big.Int{}
		for k, v := range st.Flow {
			mf[flowKey{k[0], k[1], st.Asset}] = v
		}
		tot := new(big.Int)
		for _, p := range per[i] {
			tot.Add(tot, p.Amt)
		}
		want := new(big.Int).Sub(st.Sent, st.KeptAmt)
		if tot.Cmp(want) != 0 {
			fs = append(fs, finding{"C03.stmt-sum", fmt.Sprintf("statement %d posted %s in total, expected %s (sent %s minus kept %s)", i+1, bigS(tot), bigS(want), bigS(st.Sent), bigS(st.KeptAmt))})
		}
		if d := cmpFlows(rf, mf); d != "" {
			if savedBefore {
				fs = append(fs, finding{"C08.after-save", fmt.Sprintf("statement %d after a save: %s", i+1, d)})
			}
			fs = append(fs, finding{"C09.stmt-flow", fmt.Sprintf("statement %d: %s", i+1, d)})
		}
		for _, p := range per[i] {
			if p.Asset != st.Asset {
				fs = append(fs, finding{"C02.stmt-asset", fmt.Sprintf("statement %d sends %s but posted %s", i+1, st.Asset, p)})
			}
		}
	}
	return fs
}

// varOps: statements whose amounts, caps, overdraft bounds and portions come from VARIABLES that
// several statements share. A value that is corrupted by one use (in-place arithmetic on a
// number that aliases the stored variable) shows in the next use.
func varOps() []op {
	U := "USD"
	v := func(n string) gen.Expr { return gen.V(n) }
	sent := func(n string) gen.Sent { return &gen.SentLit{E: v(n)} }
	ord := func(capE gen.Expr) gen.Dest {
		return &gen.DstInorder{Clauses: []*gen.DstClause{{Cap: capE, To: &gen.To{D: da("x")}}}, Remaining: &gen.To{D: da("y")}}
	}
	odv := func(a string) gen.Source { return &gen.SrcOverdraft{Addr: gen.Acct(a), Bounded: v("cod")} }
	return []op{
		{"send $amt a->x", 0, func() gen.Stmt { return &gen.Send{Sent: sent("amt"), Src: sa("a"), Dst: da("x")} }},
		{"send $amt world->{max $cap x, y}", 0, func() gen.Stmt { return &gen.Send{Sent: sent("amt"), Src: sa("world"), Dst: ord(v("cap"))} }},
		{"send9 world->{max $cap x, y}", 0, func() gen.Stmt { return sendN(U, "9", sa("world"), ord(v("cap"))) }},
		{"send* {a od $cod, b od $cod}->x", 0, func() gen.Stmt { return sendAllS(U, lst(odv("a"), odv("b")), da("x")) }},
		{"send $amt a od $cod->x", 0, func() gen.Stmt { return &gen.Send{Sent: sent("amt"), Src: odv("a"), Dst: da("x")} }},
		{"save $amt a", 0, func() gen.Stmt { return &gen.Save{Sent: sent("amt"), Acct: gen.Acct("a")} }},
		{"save $amt b", 0, func() gen.Stmt { return &gen.Save{Sent: sent("amt"), Acct: gen.Acct("b")} }},
		{"send $amt {max $cap a, b}->x", 0, func() gen.Stmt {
			return &gen.Send{Sent: sent("amt"), Src: lst(&gen.SrcCapped{Cap: v("cap"), From: sa("a")}, sa("b")), Dst: da("x")}
		}},
		{"send7 world->{$p x, rem y}", 0, func() gen.Stmt {
			return sendN(U, "7", sa("world"), &gen.DstAllot{Items: []*gen.DstAllotItem{{A: gen.V("p"), To: &gen.To{D: da("x")}}, {A: &gen.Remaining{}, To: &gen.To{D: da("y")}}}})
		}},
		{"send $amt {$p a, rem b}->x", 0, func() gen.Stmt {
			return &gen.Send{Sent: sent("amt"), Src: &gen.SrcAllot{Items: []*gen.SrcAllotItem{{A: gen.V("p"), From: sa("a")}, {A: &gen.Remaining{}, From: sa("b")}}}, Dst: da("x")}
		}},
		{"tx k=$amt", 0, func() gen.Stmt { return &gen.Call{Name: "set_tx_meta", Args: []gen.Expr{gen.Str("k"), v("amt")}} }},
		{"tx p=$p", 0, func() gen.Stmt { return &gen.Call{Name: "set_tx_meta", Args: []gen.Expr{gen.Str("p"), v("p")}} }},
		{"am a.c=$cap", 0, func() gen.Stmt {
			return &gen.Call{Name: "set_account_meta", Args: []gen.Expr{gen.Acct("a"), gen.Str("c"), v("cap")}}
		}},
		{"tx o=$cod", 0, func() gen.Stmt { return &gen.Call{Name: "set_tx_meta", Args: []gen.Expr{gen.Str("o"), v("cod")}} }},
		{"send* max $cap {a b}->x", 0, func() gen.Stmt {
			return sendAllS(U, &gen.SrcCapped{Cap: v("cap"), From: lst(sa("a"), sa("b"))}, da("x"))
		}},
		{"send $cap b->a", 0, func() gen.Stmt { return &gen.Send{Sent: sent("cap"), Src: sa("b"), Dst: da("a")} }},
		// arithmetic ON the shared variables (the left operand is the variable itself)
		{"send $amt-[1] world->x", 0, func() gen.Stmt {
			return &gen.Send{Sent: &gen.SentLit{E: &gen.Infix{Op: "-", L: v("amt"), R: gen.Mon(U, "1")}}, Src: sa("world"), Dst: da("x")}
		}},
		{"send $amt+$cod world->x", 0, func() gen.Stmt {
			return &gen.Send{Sent: &gen.SentLit{E: &gen.Infix{Op: "+", L: v("amt"), R: v("cod")}}, Src: sa("world"), Dst: da("x")}
		}},
		{"send9 {max $cap-[4] a, max $cap b, world}->x", 0, func() gen.Stmt {
			return sendN(U, "9", lst(&gen.SrcCapped{Cap: &gen.Infix{Op: "-", L: v("cap"), R: gen.Mon(U, "4")}, From: sa("a")}, &gen.SrcCapped{Cap: v("cap"), From: sa("b")}, sa("world")), da("x"))
		}},
		// arithmetic on shared NUMBER variables, which are then written out again
		{"tx s=$n+$nm", 0, func() gen.Stmt {
			return &gen.Call{Name: "set_tx_meta", Args: []gen.Expr{gen.Str("s"), &gen.Infix{Op: "+", L: v("n"), R: v("nm")}}}
		}},
		{"tx d=$nm-$n", 0, func() gen.Stmt {
			return &gen.Call{Name: "set_tx_meta", Args: []gen.Expr{gen.Str("d"), &gen.Infix{Op: "-", L: v("nm"), R: v("n")}}}
		}},
		{"am a.n=$n", 0, func() gen.Stmt {
			return &gen.Call{Name: "set_account_meta", Args: []gen.Expr{gen.Acct("a"), gen.Str("n"), v("n")}}
		}},
		{"send9 world->{max $amt-$cap+$cod x, y}", 0, func() gen.Stmt {
			return sendN(U, "9", sa("world"), ord(&gen.Infix{Op: "+", L: &gen.Infix{Op: "-", L: v("amt"), R: v("cap")}, R: v("cod")}))
		}},
	}
}

var varOpValues = map[string][]string{
	"amt": {"USD 3", "USD 30", "USD 18446744073709551616"},
	"cap": {"USD 5", "USD 50", "USD 18446744073709551617", "USD 010"},
	"cod": {"USD 2", "USD 10", "USD 18446744073709551616"},
	"p":   {"25%", "1/3", "100%"},
	"n":   {"5", "-2", "123456789012345678901234567890"},
	"nm":  {"-3", "18446744073709551616"},
}

// runVarSeqSpace: all sequences of minLen..maxLen statements of varOps x all values of the
// variables they use x sheets a in {0,4,20,-50}, b in {0,100}.
func runVarSeqSpace(w *mc.Worker, name string, minLen, maxLen int, body func(c *seqCase, vars map[string]string, bal env.Bal)) {
	ops := varOps()
	w.Stage(name, fmt.Sprintf("all sequences of %d..%d statements out of %d that take amounts / caps / overdraft bounds / portions from shared variables x 3-4 values per variable (incl. 2^64 and a numeral with a leading zero) x sheets a in {0,4,20,-50}, b in {0,100}", minLen, maxLen, len(ops)), func() {
		w.Outer(name+"/seq", 0, func(o *mc.Explorer) {
			n := minLen + o.Choose(maxLen-minLen+1)
			c := &seqCase{Prog: &gen.Program{}}
			for i := 0; i < n; i++ {
				p := ops[o.Choose(len(ops))]
				c.Stmts = append(c.Stmts, p.Mk())
				c.Names = append(c.Names, p.Name)
			}
			c.Prog.Stmts = c.Stmts
			names := declareUsed(c.Prog)
			c.Text = gen.Text(c.Prog)
			if !w.Mine(c.Text) {
				return
			}
			w.Owned()
			pr, ok := mustParse(w, c.Text)
			if !ok {
				return
			}
			c.PR = pr
			as := bigs(0, 4, 20, -50)
			bs := bigs(0, 100)
			w.Inner(0, func(in *mc.Explorer) {
				vars := map[string]string{}
				for _, nm := range names {
					vals := varOpValues[nm]
					vars[nm] = vals[in.Choose(len(vals))]
				}
				bal := env.Bal{"a": {"USD": as[in.Choose(len(as))]}, "b": {"USD": bs[in.Choose(len(bs))]}}
				body(c, vars, bal)
			})
		})
	})
}

// edgeOps: statements about edge relations that the core alphabet does not contain (an overdraft
// bound of exactly zero or below, an account paying itself, sources listed after a capped @world,
// an account whose name merely starts with "world"), plus the feeders they need. wf = world:fees.
func edgeOps() []op {
	U := "USD"
	wf := "world:fees"
	half := func(a, b string) gen.Dest {
		return &gen.DstAllot{Items: []*gen.DstAllotItem{{A: gen.Port("1/2"), To: &gen.To{D: da(a)}}, {A: gen.Port("1/2"), To: &gen.To{D: da(b)}}}}
	}
	return []op{
		{"send3 a+od0->x", 0, func() gen.Stmt { return sendN(U, "3", over("a", U, "0"), da("x")) }},
		{"send3 a+od-1->x", 0, func() gen.Stmt { return sendN(U, "3", over("a", U, "-1"), da("x")) }},
		{"send* a+od0->x", 0, func() gen.Stmt { return sendAllS(U, over("a", U, "0"), da("x")) }},
		{"send5 {max2 world, b}->x", 0, func() gen.Stmt {
			return sendN(U, "5", lst(&gen.SrcCapped{Cap: gen.Mon(U, "2"), From: sa("world")}, sa("b")), da("x"))
		}},
		{"send2 a->a", 0, func() gen.Stmt { return sendN(U, "2", sa("a"), da("a")) }},
		{"send* {a b}->{1/2 a, 1/2 x}", 0, func() gen.Stmt { return sendAllS(U, lst(sa("a"), sa("b")), half("a", "x")) }},
		{"send4 {a b}->{max1 b, a}", 0, func() gen.Stmt {
			return sendN(U, "4", lst(sa("a"), sa("b")), &gen.DstInorder{Clauses: []*gen.DstClause{{Cap: gen.Mon(U, "1"), To: &gen.To{D: da("b")}}}, Remaining: &gen.To{D: da("a")}})
		}},
		{"send3 wf->x", 0, func() gen.Stmt { return sendN(U, "3", sa(wf), da("x")) }},
		{"send* wf->x", 0, func() gen.Stmt { return sendAllS(U, sa(wf), da("x")) }},
		{"send2 a unbounded->x", 0, func() gen.Stmt { return sendN(U, "2", &gen.SrcOverdraft{Addr: gen.Acct("a")}, da("x")) }},
		{"send3 {a+od3 b}->x", 0, func() gen.Stmt { return sendN(U, "3", lst(over("a", U, "3"), sa("b")), da("x")) }},
		{"send2 a->world", 0, func() gen.Stmt { return sendN(U, "2", sa("a"), da("world")) }},
		{"send4 {a b}->{1/2 world, 1/2 x}", 0, func() gen.Stmt { return sendN(U, "4", lst(sa("a"), sa("b")), half("world", "x")) }},
		{"send3 {a world}->x", 0, func() gen.Stmt { return sendN(U, "3", lst(sa("a"), sa("world")), da("x")) }},
		{"send6 {max1 a, max1 a, a, world}->x", 0, func() gen.Stmt {
			c1 := func() gen.Source { return &gen.SrcCapped{Cap: gen.Mon(U, "1"), From: sa("a")} }
			return sendN(U, "6", lst(c1(), c1(), sa("a"), sa("world")), da("x"))
		}},
		{"sendEUR2 a->x", 0, func() gen.Stmt { return sendN("EUR", "2", sa("a"), da("x")) }},
		{"sendEUR2 {a world}->x", 0, func() gen.Stmt { return sendN("EUR", "2", lst(sa("a"), sa("world")), da("x")) }},
		{"save3 a", 0, func() gen.Stmt { return saveN(U, "3", "a") }},
		{"save2 world", 0, func() gen.Stmt { return saveN(U, "2", "world") }},
		// feeders
		{"send2 world->b", 0, func() gen.Stmt { return sendN(U, "2", sa("world"), da("b")) }},
		{"send2 world->a", 0, func() gen.Stmt { return sendN(U, "2", sa("world"), da("a")) }},
		{"send1 a->x", 0, func() gen.Stmt { return sendN(U, "1", sa("a"), da("x")) }},
		{"send3 {a b}->x", 0, func() gen.Stmt { return sendN(U, "3", lst(sa("a"), sa("b")), da("x")) }},
		{"send* a->x", 0, func() gen.Stmt { return sendAllS(U, sa("a"), da("x")) }},
	}
}

// runEdgeSeqSpace: all sequences of minLen..maxLen statements of edgeOps x sheets a in {0,3,5,-2},
// b in {0,2}, world:fees in {0,6}.
func runEdgeSeqSpace(w *mc.Worker, name string, minLen, maxLen int, body func(c *seqCase, bal env.Bal)) {
	ops := edgeOps()
	w.Stage(name, fmt.Sprintf("all sequences of %d..%d statements out of %d about edge relations (overdraft bound 0 / negative, an account paying itself, sources after a capped @world, an account named world:fees, saving exactly the balance, postings INTO @world, an account named three times in one source, a second asset of the same account) x sheets a in {0,3,5,-2}, a/EUR in {0,3}, b in {0,2}, world:fees in {0,6}", minLen, maxLen, len(ops)), func() {
		w.Outer(name+"/seq", 0, func(o *mc.Explorer) {
			n := minLen + o.Choose(maxLen-minLen+1)
			c := &seqCase{Prog: &gen.Program{}}
			for i := 0; i < n; i++ {
				p := ops[o.Choose(len(ops))]
				c.Stmts = append(c.Stmts, p.Mk())
				c.Names = append(c.Names, p.Name)
			}
			c.Prog.Stmts = c.Stmts
			c.Text = gen.Text(c.Prog)
			if !w.Mine(c.Text) {
				return
			}
			w.Owned()
			pr, ok := mustParse(w, c.Text)
			if !ok {
				return
			}
			c.PR = pr
			as, bs, fs, es := bigs(0, 3, 5, -2), bigs(0, 2), bigs(0, 6), bigs(0, 3)
			w.Inner(0, func(in *mc.Explorer) {
				bal := env.Bal{"a": {"USD": as[in.Choose(len(as))], "EUR": es[in.Choose(len(es))]}, "b": {"USD": bs[in.Choose(len(bs))]}, "world:fees": {"USD": fs[in.Choose(len(fs))]}}
				body(c, bal)
			})
		})
	})
}

// originOps: statements over TWO assets of the same accounts, some of them taking their amount
// from a variable computed by balance() / overdraft() / meta() at the start of the script.
func originOps() []op {
	U, E := "USD", "EUR"
	v := func(n string) gen.Expr { return gen.V(n) }
	sent := func(n string) gen.Sent { return &gen.SentLit{E: v(n)} }
	return []op{
		{"send $bu a->x", 0, func() gen.Stmt { return &gen.Send{Sent: sent("bu"), Src: sa("a"), Dst: da("x")} }},
		{"sendEUR5 a->x", 0, func() gen.Stmt { return sendN(E, "5", sa("a"), da("x")) }},
		{"sendEUR5 {a b}->x", 0, func() gen.Stmt { return sendN(E, "5", lst(sa("a"), sa("b")), da("x")) }},
		{"send4 a+od3->x", 0, func() gen.Stmt { return sendN(U, "4", over("a", U, "3"), da("x")) }},
		{"sendEUR4 a+od3->x", 0, func() gen.Stmt { return sendN(E, "4", over("a", E, "3"), da("x")) }},
		{"sendEUR* a->x", 0, func() gen.Stmt { return sendAllS(E, sa("a"), da("x")) }},
		{"send* a+od3->x", 0, func() gen.Stmt { return sendAllS(U, over("a", U, "3"), da("x")) }},
		{"send4 {a b}->x", 0, func() gen.Stmt { return sendN(U, "4", lst(sa("a"), sa("b")), da("x")) }},
		{"send $be a->b", 0, func() gen.Stmt { return &gen.Send{Sent: sent("be"), Src: sa("a"), Dst: da("b")} }},
		{"send $ou world->a", 0, func() gen.Stmt { return &gen.Send{Sent: sent("ou"), Src: sa("world"), Dst: da("a")} }},
		{"send2 $ma->x", 0, func() gen.Stmt { return sendN(U, "2", &gen.SrcAccount{E: v("ma")}, da("x")) }},
		{"send2 b->$ma", 0, func() gen.Stmt { return sendN(U, "2", sa("b"), &gen.DstAccount{E: v("ma")}) }},
		{"save $bu a", 0, func() gen.Stmt { return &gen.Save{Sent: sent("bu"), Acct: gen.Acct("a")} }},
		{"saveEUR2 a", 0, func() gen.Stmt { return saveN(E, "2", "a") }},
	}
}

var originDecls = map[string]func() *gen.VarDecl{
	"bu": func() *gen.VarDecl {
		return &gen.VarDecl{Type: &gen.TypeName{Name: "monetary"}, Name: gen.V("bu"), Origin: &gen.Call{Name: "balance", Args: []gen.Expr{gen.Acct("a"), gen.Asset("USD")}}}
	},
	"be": func() *gen.VarDecl {
		return &gen.VarDecl{Type: &gen.TypeName{Name: "monetary"}, Name: gen.V("be"), Origin: &gen.Call{Name: "balance", Args: []gen.Expr{gen.Acct("a"), gen.Asset("EUR")}}}
	},
	"ou": func() *gen.VarDecl {
		return &gen.VarDecl{Type: &gen.TypeName{Name: "monetary"}, Name: gen.V("ou"), Origin: &gen.Call{Name: "overdraft", Args: []gen.Expr{gen.Acct("a"), gen.Asset("USD")}}}
	},
	"ma": func() *gen.VarDecl {
		return &gen.VarDecl{Type: &gen.TypeName{Name: "account"}, Name: gen.V("ma"), Origin: &gen.Call{Name: "meta", Args: []gen.Expr{gen.Acct("b"), gen.Str("peer")}}}
	},
}

// originCase: the inputs of one execution of the origin space.
type originCase struct {
	Bal   env.Bal
	Meta  env.Meta
	Flags map[string]struct{}
}

// runOriginSeqSpace: all sequences of minLen..maxLen statements of originOps, the variables they
// use declared with their origins, x sheets a/USD in {0,5,-20}, a/EUR in {0,7,-20}, b/USD = b/EUR
// in {0,10} x the metadata value behind $ma (peerVals; the entry may also be absent).
func runOriginSeqSpace(w *mc.Worker, name string, minLen, maxLen int, peerVals []string, body func(c *seqCase, oc *originCase)) {
	ops := originOps()
	w.Stage(name, fmt.Sprintf("all sequences of %d..%d statements out of %d over two assets of the same accounts with amounts / accounts from balance(), overdraft() and meta() variables x sheets a/USD in {0,5,-20}, a/EUR in {0,7,-20}, b in {0,10} x %d values of the metadata entry", minLen, maxLen, len(ops), len(peerVals)), func() {
		w.Outer(name+"/seq", 0, func(o *mc.Explorer) {
			n := minLen + o.Choose(maxLen-minLen+1)
			c := &seqCase{Prog: &gen.Program{}}
			for i := 0; i < n; i++ {
				p := ops[o.Choose(len(ops))]
				c.Stmts = append(c.Stmts, p.Mk())
				c.Names = append(c.Names, p.Name)
			}
			c.Prog.Stmts = c.Stmts
			usesMeta := false
			for _, nm := range usedVars(c.Prog) {
				c.Prog.Vars = append(c.Prog.Vars, originDecls[nm]())
				usesMeta = usesMeta || nm == "ma"
			}
			c.Text = gen.Text(c.Prog)
			if !w.Mine(c.Text) {
				return
			}
			w.Owned()
			pr, ok := mustParse(w, c.Text)
			if !ok {
				return
			}
			c.PR = pr
			au, ae, bs := bigs(0, 5, -20), bigs(0, 7, -20), bigs(0, 10)
			w.Inner(0, func(in *mc.Explorer) {
				b := bs[in.Choose(len(bs))]
				oc := &originCase{Flags: map[string]struct{}{"experimental-overdraft-function": {}}}
				oc.Bal = env.Bal{"a": {"USD": au[in.Choose(len(au))], "EUR": ae[in.Choose(len(ae))]}, "b": {"USD": b, "EUR": b}}
				if usesMeta {
					pv := peerVals[in.Choose(len(peerVals))]
					if pv != "\x00absent" {
						oc.Meta = env.Meta{"b": {"peer": pv}}
					}
				}
				body(c, oc)
			})
		})
	})
}
