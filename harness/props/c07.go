package props

import (
	"fmt"
	"math/big"
	"strings"
	"time"

	"github.com/formancehq/numscript/internal/interpreter"
	"github.com/formancehq/numscript/internal/verifmc/env"
	"github.com/formancehq/numscript/internal/verifmc/gen"
	"github.com/formancehq/numscript/internal/verifmc/mc"
	"github.com/formancehq/numscript/internal/verifmc/ref"
)

// C07 Funds pair first-come-first-served; kept funds stay with the earliest sources.

func init() {
	mc.Register(&mc.Property{
		ID:    "C07",
		Title: "FIFO pairing; kept stays with the earliest sources",
		Rule: "(i) interpreter.Reconcile called directly on all sender lists (length <= Ls, names {a,b}, amounts 1..A) x all receiver lists (length <= Lr, names {x,y,<kept>,a}, amounts 1..A) whose sums are equal; " +
			"(ii) all single-send scripts with 2-3 sources x 2-3 destination shares with kept in every position x all balances; oracle: source x destination flow matrix == in-order pairing of the draw list with the distribution list, kept units withheld from the senders next in line; " +
			"non-trivial = at least one share is split across two postings or a kept share is present; distinct = the two lists / script text + inputs",
		Assumptions: []string{"no posting order is demanded beyond what the flow matrix implies", "Reconcile is given fresh slices and fresh big.Ints on every call (it reverses its arguments in place)"},
		QuickBudget: 240 * time.Second,
		ThoroBudget: 12 * time.Minute,
		Run:         runC07,
	})
}

type unit struct {
	name string
	amt  int64
}

func genUnits(e *mc.Explorer, maxLen int, names []string, maxAmt int) []unit {
	n := e.Choose(maxLen + 1)
	us := make([]unit, n)
	for i := range us {
		us[i] = unit{names[e.Choose(len(names))], int64(1 + e.Choose(maxAmt))}
	}
	return us
}

func unitsStr(us []unit) string {
	var p []string
	for _, u := range us {
		p = append(p, fmt.Sprintf("%s:%d", u.name, u.amt))
	}
	return "[" + strings.Join(p, " ") + "]"
}

func runC07(w *mc.Worker) {
	type rb struct{ ls, lr, a int }
	var b rb
	if w.Tier == "quick" {
		b = rb{3, 3, 4}
	} else {
		b = rb{4, 4, 5}
	}
	name := fmt.Sprintf("reconcile-S%d-R%d-A%d", b.ls, b.lr, b.a)
	w.Stage(name, fmt.Sprintf("sender lists of length <= %d over {a,b} x receiver lists of length <= %d over {x,y,<kept>,a} (a is also a sender: an account may pay itself), amounts 1..%d, equal sums", b.ls, b.lr, b.a), func() {
		w.Outer(name+"/lists", 0, func(o *mc.Explorer) {
			snd := genUnits(o, b.ls, []string{"a", "b"}, b.a)
			key := unitsStr(snd)
			if !w.Mine(key) {
				return
			}
			w.Owned()
			w.Inner(0, func(in *mc.Explorer) {
				rcv := genUnits(in, b.lr, []string{"x", "y", interpreter.KEPT_ADDR, "a"}, b.a)
				var ss, rs int64
				for _, u := range snd {
					ss += u.amt
				}
				for _, u := range rcv {
					rs += u.amt
				}
				if ss != rs {
					return // not a case: the interpreter always hands Reconcile equal totals
				}
				// reference pairing
				sr := &ref.StmtResult{Flow: map[[2]string]*big.Int{}, KeptAmt: new(big.Int)}
				for _, u := range snd {
					sr.Draws = append(sr.Draws, ref.Unit{Acct: u.name, Amt: bi(u.amt)})
				}
				splits := false
				for _, u := range rcv {
					n := u.name
					if n == interpreter.KEPT_ADDR {
						n = ref.KEPT
						splits = true
					}
					sr.Dists = append(sr.Dists, ref.Unit{Acct: n, Amt: bi(u.amt)})
				}
				ref.Pair(sr)
				var senders []interpreter.Sender
				var receivers []interpreter.Receiver
				for _, u := range snd {
					senders = append(senders, interpreter.Sender{Name: u.name, Monetary: bi(u.amt)})
				}
				for _, u := range rcv {
					receivers = append(receivers, interpreter.Receiver{Name: u.name, Monetary: bi(u.amt)})
				}
				var ps []interpreter.Posting
				var err interpreter.InterpreterError
				pmsg, where := guard(func() { ps, err = interpreter.Reconcile("USD", senders, receivers) })
				ckey := key + "|" + unitsStr(rcv)
				c := Case{Script: "Reconcile(USD, senders=" + key + ", receivers=" + unitsStr(rcv) + ")"}
				if pmsg != "" {
					w.Eval(ckey, true, "panic")
					c.Observed = "panic: " + pmsg
					w.Violation("C07.reconcile-panic@"+where, "Reconcile panicked: "+pmsg, len(ckey), c)
					return
				}
				if err != nil {
					w.Eval(ckey, true, "error")
					c.Observed = "error: " + err.Error()
					w.Violation("C07.reconcile-error", "Reconcile failed on lists with equal totals: "+err.Error(), len(ckey), c)
					return
				}
				var out []P
				for _, p := range ps {
					out = append(out, P{p.Source, p.Destination, p.Asset, new(big.Int).Set(p.Amount)})
				}
				rf := realFlows(out)
				mf := map[flowKey]*big.Int{}
				for k, v := range sr.Flow {
					mf[flowKey{k[0], k[1], "USD"}] = v
				}
				// a share is split when the flow matrix has more cells than max(#senders, #receivers)
				if len(mf) > len(snd) || len(mf) > len(rcv) {
					splits = true
				}
				w.Eval(ckey, splits, fmt.Sprintf("cells=%d kept=%v", len(mf), sr.KeptAmt.Sign() > 0))
				c.Observed = postingsStr(out)
				c.Expected = flowsStr(mf)
				bad := cmpFlows(rf, mf)
				if bad == "" {
					for _, p := range out {
						if p.Amt.Sign() <= 0 || p.Src == interpreter.KEPT_ADDR || p.Dst == interpreter.KEPT_ADDR {
							bad = "posting " + p.String() + " is not a real transfer"
						}
					}
				}
				if bad != "" {
					feat := ""
					if sr.KeptAmt.Sign() > 0 {
						feat = "kept"
					}
					w.Violation("C07.reconcile-flow:"+feat, bad, len(ckey), c)
				}
				if splits {
					w.Sample(fmt.Sprintf("cells=%d", len(mf)), c)
				}
			})
		})
	})

	// (ii) end-to-end
	owns := clausesOf("C07.")
	nontriv := func(m *ref.Result, out *Out) bool {
		if m.Err != "" || len(m.Stmts) == 0 {
			return false
		}
		s := m.Stmts[0]
		return len(s.Draws) >= 2 && len(s.Dists) >= 2
	}
	src := &SrcCfg{Asset: "USD", Accts: ws(0, "a", "b", "world"),
		Grants: ws(0, "2"), GrantAcct: ws(0, "a", "b"),
		Caps:       ws(0, "2", "1"),
		Vecs:       []PortVec{{[]string{"1/2", "1/2"}, 0}, {[]string{"1/3", "remaining"}, 0}, {[]string{"remaining", "1/4"}, 0}},
		ListLens:   cat(ws(0, "2"), ws(1, "3")),
		WOverdraft: 1, WUnbounded: -1, WVar: -1, WInorder: 0, WCapped: 1, WAllot: 1}
	dst := &DstCfg{Asset: "USD", Accts: ws(0, "x", "y", "a"),
		Caps:     ws(0, "2", "1", "3"),
		Vecs:     []PortVec{{[]string{"1/2", "1/2"}, 0}, {[]string{"1/3", "remaining"}, 0}, {[]string{"1/3", "1/3", "1/3"}, 1}},
		NClauses: cat(ws(0, "1"), ws(1, "2")),
		WKept:    0, WVar: -1, WInorder: 0, WAllot: 0}
	bal := []*big.Int{bi(0), bi(1), bi(2), bi(3), bi(5)}
	amt := []*big.Int{bi(1), bi(2), bi(3), bi(4), bi(6)}
	budget, depth := 2, 1
	bounds := "sources (in-order lists of 2-3 over {a,b,world}, capped / bounded overdraft / allotment) and destinations (ordered, allotment) of nesting depth 1 and joint weight <= 2, kept in every position; balances {0,1,2,3,5}^2; amounts {1,2,3,4,6}"
	nm := "e2e-w2-d1"
	if w.Tier == "thorough" {
		budget, depth = 3, 2
		bal = append(bal, H)
		amt = append(amt, new(big.Int).Add(H, bi(2)))
		bounds = "sources and destinations of nesting depth <= 2 and joint weight <= 3, kept in every position; balances {0,1,2,3,5,H}^2; amounts {1,2,3,4,6,H+2}"
		nm = "e2e-w3-d2"
	}
	runThreeSendersKept(w, owns, nontriv)
	{
		// nested destinations with kept, two plain sources (kept inside a branch that is followed by another share)
		dst2 := &DstCfg{Asset: "USD", Accts: ws(0, "x", "y"), Caps: ws(0, "2", "4"),
			Vecs:     []PortVec{{[]string{"1/2", "1/2"}, 0}, {[]string{"1/3", "remaining"}, 0}},
			NClauses: ws(0, "1"), WKept: 0, WVar: -1, WInorder: 1, WAllot: 1}
		src2 := &SrcCfg{Asset: "USD", Accts: ws(0, "a", "b"), ListLens: ws(0, "2"), WOverdraft: -1, WUnbounded: -1, WVar: -1, WInorder: 0, WCapped: -1, WAllot: -1}
		nb := 2
		if w.Tier == "thorough" {
			nb = 3
		}
		sp2 := sendSpace{Name: fmt.Sprintf("nested-kept-w%d", nb), Bounds: fmt.Sprintf("sources {x y} over {a,b}; destinations of weight <= %d, nesting depth 2, kept in every position; balances {0,1,2,3,5}^2; amounts {1,2,3,4,6}", nb), Budget: nb, SrcDepth: 1, DstDepth: 2, Src: src2, Dst: dst2,
			Modes: []string{"fixed", "all"}, Accts: []string{"a", "b"}, BalDom: bal, AmtDom: amt, Asset: "USD"}
		runSendSpace(w, &sp2, owns, nontriv)
	}
	// account names that collide when a source and a destination are joined with ':' ((u:1, f) and (u, 1:f))
	w.Stage("colon-names", "send $amt from {@u:1 @u} / {@u @u:1} to {max c to @f, remaining to @1:f} / {max c to @1:f, remaining to @f} / {1/2 to @f, 1/2 to @1:f}; c in {1,2,3}; balances {1,2,3}^2; amounts 1..6", func() {
		w.Outer("colon-names/shape", 0, func(o *mc.Explorer) {
			s1, s2 := "u:1", "u"
			if o.Choose(2) == 1 {
				s1, s2 = s2, s1
			}
			d1, d2 := "f", "1:f"
			if o.Choose(2) == 1 {
				d1, d2 = d2, d1
			}
			var dst gen.Dest
			if k := o.Choose(4); k < 3 {
				dst = &gen.DstInorder{Clauses: []*gen.DstClause{{Cap: gen.Mon("USD", []string{"1", "2", "3"}[k]), To: &gen.To{D: da(d1)}}}, Remaining: &gen.To{D: da(d2)}}
			} else {
				dst = &gen.DstAllot{Items: []*gen.DstAllotItem{{A: gen.Port("1/2"), To: &gen.To{D: da(d1)}}, {A: gen.Port("1/2"), To: &gen.To{D: da(d2)}}}}
			}
			prog := &gen.Program{Stmts: []gen.Stmt{&gen.Send{Sent: &gen.SentLit{E: gen.V("amt")}, Src: lst(sa(s1), sa(s2)), Dst: dst}}}
			declareUsed(prog)
			text := gen.Text(prog)
			if !w.Mine(text) {
				return
			}
			w.Owned()
			pr, ok := mustParse(w, text)
			if !ok {
				return
			}
			bals := bigs(1, 2, 3)
			w.Inner(0, func(in *mc.Explorer) {
				bal := env.Bal{"u:1": {"USD": bals[in.Choose(3)]}, "u": {"USD": bals[in.Choose(3)]}}
				vars := map[string]string{"amt": fmt.Sprint("USD ", 1+in.Choose(6))}
				judgeOne(w, prog, text, pr, vars, bal, nil, owns, nontriv)
			})
		})
	})
	{
		// amounts around the machine-word boundaries: a sender of 2^63+k against a share of 2, and so on
		spP := sendSpace{Name: "pow2-w1", Bounds: "the same sources and destinations with joint weight <= 1 (depth 1); balances in {1,2^63,2^64-1,2^64+1}^2; amounts in {0,1,2^63-1,2^63,2^64-1,2^64,2^64+1,2^65}", Budget: 1, SrcDepth: 1, DstDepth: 1, Src: src, Dst: dst,
			Modes: []string{"fixed", "all"}, Accts: []string{"a", "b"}, BalDom: []*big.Int{pow2Dom()[1], pow2Dom()[3], pow2Dom()[4], pow2Dom()[6]}, AmtDom: pow2Dom(), Asset: "USD"}
		runSendSpace(w, &spP, owns, nontriv)
	}
	sp := sendSpace{Name: nm, Bounds: bounds, Budget: budget, SrcDepth: depth, DstDepth: depth, Src: src, Dst: dst,
		Modes: []string{"fixed", "all"}, Accts: []string{"a", "b"}, BalDom: bal, AmtDom: amt, Asset: "USD"}
	runSendSpace(w, &sp, owns, nontriv)
}
