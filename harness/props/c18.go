package props

import (
	"fmt"
	"sort"
	"strings"
	"time"

	"github.com/formancehq/numscript/internal/analysis"
	"github.com/formancehq/numscript/internal/parser"
	"github.com/formancehq/numscript/internal/verifmc/gen"
	"github.com/formancehq/numscript/internal/verifmc/mc"
	"github.com/formancehq/numscript/internal/verifmc/verifrt"
)

// C18 Editor analysis survives any text: check, symbols, hover, definition don't crash.

func init() {
	mc.Register(&mc.Property{
		ID:    "C18",
		Title: "Editor analysis survives any text",
		Rule: "the C14 text space (generator scripts, every truncation, every token deletion / duplication / insertion / replacement over the " + alphaN + "-entry alphabet, all token soups up to length L), each analysed with CheckSource, GetSymbols, and HoverOn + GotoDefinition at EVERY position (every line, every character 0..len+1); " +
			"oracle: no panic; every diagnostic starts inside the text or at its end and does not end before it starts; analysing the same text again yields the same SET of diagnostics and symbols (map-iteration orders are additionally permuted exhaustively by the instrumented C11 build's map-order seam, see DESIGN 3.4); " +
			"non-trivial = the text was edited / is a soup; distinct = the text",
		Assumptions: []string{"set equality of diagnostics is judged on (range, severity, message)"},
		QuickBudget: 240 * time.Second,
		ThoroBudget: 12 * time.Minute,
		UseJournal:  true,
		Run:         runC18,
	})
}

func diagSet(r analysis.CheckResult) []string {
	var out []string
	for _, d := range r.Diagnostics {
		msg := "?"
		sev := byte(0)
		if d.Kind != nil {
			msg = d.Kind.Message()
			sev = d.Kind.Severity()
		}
		out = append(out, fmt.Sprintf("%d:%d-%d:%d|%d|%s", d.Range.Start.Line, d.Range.Start.Character, d.Range.End.Line, d.Range.End.Character, sev, msg))
	}
	sort.Strings(out)
	return out
}

func symSet(r *analysis.CheckResult) []string {
	var out []string
	for _, s := range r.GetSymbols() {
		out = append(out, fmt.Sprintf("%s|%s|%d:%d-%d:%d|%v", s.Name, s.Detail, s.Range.Start.Line, s.Range.Start.Character, s.Range.End.Line, s.Range.End.Character, s.Kind))
	}
	sort.Strings(out)
	return out
}

func runC18(w *mc.Worker) {
	c18MapOrder(w)
	textSpace(w, w.Tier, func(text string, edited bool) {
		w.Journal(text)
		c := Case{Script: text}
		var res analysis.CheckResult
		pmsg, where := guard(func() { res = analysis.CheckSource(text) })
		if pmsg != "" {
			w.Eval(text, edited, "check-panic")
			c.Observed = "CheckSource panicked: " + pmsg + " @" + where
			w.Violation("C18.panic:check@"+where, "CheckSource panicked: "+pmsg, len(text), c)
			return
		}
		var d1, s1 []string
		pmsg, where = guard(func() { d1 = diagSet(res); s1 = symSet(&res) })
		if pmsg != "" {
			w.Eval(text, edited, "symbols-panic")
			c.Observed = "GetSymbols / Message panicked: " + pmsg + " @" + where
			w.Violation("C18.panic:symbols@"+where, "listing symbols or rendering diagnostics panicked: "+pmsg, len(text), c)
			return
		}
		for _, d := range res.Diagnostics {
			st, en := d.Range.Start, d.Range.End
			if !posInText(text, st.Line, st.Character) {
				c.Observed = fmt.Sprintf("diagnostic %q starts at %d:%d", d.Kind.Message(), st.Line, st.Character)
				w.Violation("C18.diagnostic-position:"+fmt.Sprintf("%T", d.Kind), "a diagnostic starts outside the document", len(text), c)
				break
			}
			if en.Line < st.Line || (en.Line == st.Line && en.Character < st.Character) {
				c.Observed = fmt.Sprintf("diagnostic %q spans %d:%d-%d:%d", d.Kind.Message(), st.Line, st.Character, en.Line, en.Character)
				w.Violation("C18.diagnostic-range:"+fmt.Sprintf("%T", d.Kind), "a diagnostic ends before it starts", len(text), c)
				break
			}
		}
		// repetition
		var res2 analysis.CheckResult
		pmsg, where = guard(func() { res2 = analysis.CheckSource(text) })
		if pmsg == "" {
			d2, s2 := diagSet(res2), symSet(&res2)
			if strings.Join(d1, "\n") != strings.Join(d2, "\n") {
				c.Observed = "first: " + strings.Join(d1, " ; ") + " | second: " + strings.Join(d2, " ; ")
				w.Violation("C18.nondeterministic-diagnostics", "analysing the same text twice gave different sets of diagnostics", len(text), c)
			}
			if strings.Join(s1, "\n") != strings.Join(s2, "\n") {
				c.Observed = "first: " + strings.Join(s1, " ; ") + " | second: " + strings.Join(s2, " ; ")
				w.Violation("C18.nondeterministic-symbols", "analysing the same text twice gave different sets of symbols", len(text), c)
			}
		}
		// hover and go-to-definition at every position
		lines := strings.Split(text, "\n")
		positions := 0
		hovers := 0
		for li, l := range lines {
			n := len([]rune(l))
			for ch := 0; ch <= n+1; ch++ {
				pos := parser.Position{Line: li, Character: ch}
				positions++
				var h analysis.Hover
				pmsg, where = guard(func() { h = analysis.HoverOn(res.Program, pos) })
				if pmsg != "" {
					c.Observed = fmt.Sprintf("HoverOn at %d:%d panicked: %s @%s", li, ch, pmsg, where)
					w.Violation("C18.panic:hover@"+where, "HoverOn panicked: "+pmsg, len(text), c)
					w.Eval(text, edited, "hover-panic")
					return
				}
				if h != nil {
					hovers++
				}
				pmsg, where = guard(func() { _ = analysis.GotoDefinition(res.Program, pos, res) })
				if pmsg != "" {
					c.Observed = fmt.Sprintf("GotoDefinition at %d:%d panicked: %s @%s", li, ch, pmsg, where)
					w.Violation("C18.panic:definition@"+where, "GotoDefinition panicked: "+pmsg, len(text), c)
					w.Eval(text, edited, "definition-panic")
					return
				}
			}
		}
		w.Count("positions", int64(positions))
		outcome := fmt.Sprintf("diags>0=%v symbols>0=%v hovers>0=%v", len(d1) > 0, len(s1) > 0, hovers > 0)
		w.Eval(text, edited, outcome)
		if edited {
			w.Sample(outcome, c)
		}
	})
}

// c18MapOrder: the determinism clause under EVERY map iteration order. The build is
// instrumented (bin/prebuild-C18): each `range` over a map in the analysis package iterates
// verifrt.MapOrder, whose permutation is a choice of the explorer.
func c18MapOrder(w *mc.Worker) {
	budget, weight := 2, 1
	if w.Tier == "thorough" {
		budget, weight = 3, 2
	}
	w.Stage(fmt.Sprintf("map-order-P%d", budget), fmt.Sprintf("variable-rich generator scripts of weight <= %d and their single name edits: CheckSource + GetSymbols under every map iteration order (<= 4 keys, <= %d non-identity picks), plus 4 scripts declaring 6..9 variables under the canonical order, its reverse and two rotations", weight, budget), func() {
		g := &Full{MaxStmts: 2, Depth: 1, VarsFree: true}
		sawPoint := false
		// declaration blocks too wide for all permutations (6..9 variables, unused / used / repeated):
		// explored under the canonical order, its reverse and two rotations
		wide := []string{
			"vars { account $a1 account $a2 number $a3 string $a4 portion $a5 monetary $a6 }\nsend [ USD 1 ] ( source = @a destination = @b )\n",
			"vars { account $a1 account $a2 number $a3 string $a4 portion $a5 monetary $a6 asset $a7 account $a8 }\nsend $a6 ( source = $a1 destination = $a8 )\n",
			"vars { account $a1 account $a2 number $a3 string $a4 account $a2 monetary $a6 asset $a7 }\nsend [ USD 1 ] ( source = $a9 destination = $a2 )\n",
			"vars { account $a1 account $a2 number $a3 string $a4 portion $a5 monetary $a6 asset $a7 account $a8 number $a9 }\nset_tx_meta ( \"k\" , $a3 )\n",
		}
		w.Outer(fmt.Sprintf("map-order-P%d/script", budget), weight, func(o *mc.Explorer) {
			text := ""
			if wi := o.Choose(len(wide) + 1); wi > 0 {
				text = wide[wi-1]
			} else {
				prog := g.Program(o)
				if len(prog.Vars) < 2 {
					return
				}
				// one optional name edit so that unused / duplicate / unbound variables occur
				if o.Choose(2) == 1 {
					if _, ok := c16Edit(o, prog); !ok {
						return
					}
				}
				text = gen.Text(prog)
			}
			if !w.Mine(text) {
				return
			}
			w.Owned()
			verifrt.SetOrderChooser(nil)
			var base analysis.CheckResult
			if p, _ := guard(func() { base = analysis.CheckSource(text) }); p != "" {
				return
			}
			bd, bs := strings.Join(diagSet(base), "\n"), strings.Join(symSet(&base), "\n")
			w.Inner(budget, func(in *mc.Explorer) {
				verifrt.SetOrderChooser(in)
				var res analysis.CheckResult
				var d, s string
				pmsg, _ := guard(func() {
					res = analysis.CheckSource(text)
					d, s = strings.Join(diagSet(res), "\n"), strings.Join(symSet(&res), "\n")
				})
				if verifrt.MapPoints > 0 {
					sawPoint = true
				}
				verifrt.SetOrderChooser(nil)
				perm := fmt.Sprint(in.Choices())
				w.Eval("perm|"+text+"|"+perm, strings.ContainsAny(perm, "123"), fmt.Sprintf("map-order same=%v", pmsg == "" && d == bd && s == bs))
				if pmsg != "" {
					w.Violation("C18.panic:map-order", "analysis panicked under a particular map iteration order: "+pmsg, len(text), Case{Script: text, Observed: "picks " + perm})
					return
				}
				if d != bd {
					w.Violation("C18.nondeterministic-diagnostics", "the set of diagnostics depends on the order in which a map is iterated", len(text), Case{Script: text, Observed: "picks " + perm + ": " + d, Expected: bd})
				}
				if s != bs {
					w.Violation("C18.nondeterministic-symbols", "the set of symbols depends on the order in which a map is iterated", len(text), Case{Script: text, Observed: "picks " + perm + ": " + s, Expected: bs})
				}
			})
		})
		if !w.IsReplay() && !verifrt.Instrumented {
			w.Count("harness_errors", 1)
			w.Rep.Notes = append(w.Rep.Notes, "map-order stage: the build is not instrumented")
		} else if !w.IsReplay() && w.Rep.OuterCases > 0 && !sawPoint && w.Rank == 0 {
			w.Rep.Notes = append(w.Rep.Notes, fmt.Sprintf("map-order stage: no map iteration with >= 2 keys was reached (%d rewritten sites in the instrumented tree): nothing to permute", verifrt.MapRangeSites))
		}
	})
}
