package props

import (
	"fmt"
	"math/big"
	"sort"
	"strings"
	"time"

	"github.com/formancehq/numscript/internal/interpreter"
	"github.com/formancehq/numscript/internal/verifmc/env"
	"github.com/formancehq/numscript/internal/verifmc/gen"
	"github.com/formancehq/numscript/internal/verifmc/mc"
	"github.com/formancehq/numscript/internal/verifmc/ref"
)

// C10 Results depend only on the balances asked for, never on how the store answers.

func init() {
	mc.Register(&mc.Property{
		ID:    "C10",
		Title: "Results do not depend on how the store answers",
		Rule: "all scripts = <= 2 variable declarations out of {balance(@a,USD), balance(@b,USD), overdraft(@a,USD), balance(@a,EUR), account from meta(@b,\"acc\"), plain account variable} followed by 1..L statements from the statement alphabet extended with statements that use those variables (sent value, cap, overdraft bound, source account, save) x all sheets x metadata values x variable values, each executed under the four store behaviours {exact, sparse, superset, static}; " +
			"oracle: (differential) identical postings / metadata / error class under all four behaviours; (monitor, on the exact store's query log) @world is never requested and every (account, asset) the reference semantics reads was requested before; " +
			"non-trivial = the script makes >= 2 store calls (an early request followed by the preload) or reads >= 2 distinct pairs; distinct = script text + inputs (one case covers its four behaviours; executions counts every run)",
		Assumptions: []string{"the overdraft() feature flag is on for scripts that use it", "each run gets its own deep copy of the store content, so the in-place update of StaticStore maps (C11's subject) cannot leak between runs"},
		QuickBudget: 240 * time.Second,
		ThoroBudget: 12 * time.Minute,
		Run:         runC10,
	})
}

type c10Decl struct {
	Name string
	Mk   func() *gen.VarDecl
}

func originDecl(typ, name, fn string, args ...gen.Expr) *gen.VarDecl {
	return &gen.VarDecl{Type: &gen.TypeName{Name: typ}, Name: gen.V(name), Origin: &gen.Call{Name: fn, Args: args}}
}

func c10Decls() []c10Decl {
	return []c10Decl{
		{"m", func() *gen.VarDecl { return originDecl("monetary", "m", "balance", gen.Acct("a"), gen.Asset("USD")) }},
		{"mb", func() *gen.VarDecl { return originDecl("monetary", "mb", "balance", gen.Acct("b"), gen.Asset("USD")) }},
		{"o", func() *gen.VarDecl { return originDecl("monetary", "o", "overdraft", gen.Acct("a"), gen.Asset("USD")) }},
		{"v", func() *gen.VarDecl { return originDecl("account", "v", "meta", gen.Acct("b"), gen.Str("acc")) }},
		{"e", func() *gen.VarDecl { return originDecl("monetary", "e", "balance", gen.Acct("a"), gen.Asset("EUR")) }},
		{"w", func() *gen.VarDecl { return &gen.VarDecl{Type: &gen.TypeName{Name: "account"}, Name: gen.V("w")} }},
		{"mw", func() *gen.VarDecl {
			return originDecl("monetary", "mw", "overdraft", gen.Acct("world"), gen.Asset("USD"))
		}},
		{"bw", func() *gen.VarDecl { return originDecl("monetary", "bw", "overdraft", gen.V("w"), gen.Asset("USD")) }},
		{"wb", func() *gen.VarDecl { return originDecl("monetary", "wb", "balance", gen.Acct("world"), gen.Asset("USD")) }},
	}
}

type c10Op struct {
	op
	Needs string // variable required ("" = none)
}

func c10Ops() []c10Op {
	U := "USD"
	var out []c10Op
	for _, o := range coreOps()[:22] {
		out = append(out, c10Op{o, ""})
	}
	sv := func(s gen.Sent, src gen.Source, d gen.Dest) gen.Stmt { return &gen.Send{Sent: s, Src: src, Dst: d} }
	v := func(n string) gen.Expr { return gen.V(n) }
	out = append(out,
		c10Op{op{"send $m {a b}->x", 0, func() gen.Stmt { return sv(&gen.SentLit{E: v("m")}, lst(sa("a"), sa("b")), da("x")) }}, "m"},
		c10Op{op{"send3 {max $m b, a}->x", 0, func() gen.Stmt {
			return sv(&gen.SentLit{E: gen.Mon(U, "3")}, lst(&gen.SrcCapped{Cap: v("m"), From: sa("b")}, sa("a")), da("x"))
		}}, "m"},
		c10Op{op{"send $mb {a b}->x", 0, func() gen.Stmt { return sv(&gen.SentLit{E: v("mb")}, lst(sa("a"), sa("b")), da("x")) }}, "mb"},
		c10Op{op{"save $mb from b", 0, func() gen.Stmt { return &gen.Save{Sent: &gen.SentLit{E: v("mb")}, Acct: gen.Acct("b")} }}, "mb"},
		c10Op{op{"send2 a od $o->x", 0, func() gen.Stmt {
			return sv(&gen.SentLit{E: gen.Mon(U, "2")}, &gen.SrcOverdraft{Addr: gen.Acct("a"), Bounded: v("o")}, da("x"))
		}}, "o"},
		c10Op{op{"send3 {$v b}->x", 0, func() gen.Stmt {
			return sv(&gen.SentLit{E: gen.Mon(U, "3")}, lst(&gen.SrcAccount{E: v("v")}, sa("b")), da("x"))
		}}, "v"},
		c10Op{op{"send* {$v}->x", 0, func() gen.Stmt {
			return sv(&gen.SentAll{Asset: gen.Asset(U)}, lst(&gen.SrcAccount{E: v("v")}), da("x"))
		}}, "v"},
		c10Op{op{"send $e a->x", 0, func() gen.Stmt { return sv(&gen.SentLit{E: v("e")}, sa("a"), da("x")) }}, "e"},
		c10Op{op{"send3 {$w a}->x", 0, func() gen.Stmt {
			return sv(&gen.SentLit{E: gen.Mon(U, "3")}, lst(&gen.SrcAccount{E: v("w")}, sa("a")), da("x"))
		}}, "w"},
		c10Op{op{"save1 $w", 0, func() gen.Stmt { return &gen.Save{Sent: &gen.SentLit{E: gen.Mon(U, "1")}, Acct: v("w")} }}, "w"},
		c10Op{op{"send4 {0% a, 1/3 b, rem x}->y", 0, func() gen.Stmt {
			return sv(&gen.SentLit{E: gen.Mon(U, "4")}, &gen.SrcAllot{Items: []*gen.SrcAllotItem{
				{A: gen.Port("0%"), From: sa("a")}, {A: gen.Port("1/3"), From: sa("b")}, {A: &gen.Remaining{}, From: sa("x")}}}, da("y"))
		}}, ""},
		c10Op{op{"send $mw world->x", 0, func() gen.Stmt { return sv(&gen.SentLit{E: v("mw")}, sa("world"), da("x")) }}, "mw"},
		c10Op{op{"send $bw world->x", 0, func() gen.Stmt { return sv(&gen.SentLit{E: v("bw")}, sa("world"), da("x")) }}, "bw"},
		// an account whose name merely starts with "world" is an ordinary account: its balance matters
		c10Op{op{"send3 {world:fees b}->x", 0, func() gen.Stmt {
			return sv(&gen.SentLit{E: gen.Mon(U, "3")}, lst(sa("world:fees"), sa("b")), da("x"))
		}}, ""},
		// two accounts the store has no entry for (an exact store may answer both with one shared zero)
		c10Op{op{"send2 world->p", 0, func() gen.Stmt { return sv(&gen.SentLit{E: gen.Mon(U, "2")}, sa("world"), da("p")) }}, ""},
		c10Op{op{"send3 {q p b}->x", 0, func() gen.Stmt {
			return sv(&gen.SentLit{E: gen.Mon(U, "3")}, lst(sa("q"), sa("p"), sa("b")), da("x"))
		}}, ""},
		c10Op{op{"sendEUR2 a->x", 0, func() gen.Stmt { return sv(&gen.SentLit{E: gen.Mon("EUR", "2")}, sa("a"), da("x")) }}, ""},
		c10Op{op{"saveEUR1 a", 0, func() gen.Stmt { return &gen.Save{Sent: &gen.SentLit{E: gen.Mon("EUR", "1")}, Acct: gen.Acct("a")} }}, ""},
		c10Op{op{"send5 world->{max $wb x, y}", 0, func() gen.Stmt {
			return sv(&gen.SentLit{E: gen.Mon(U, "5")}, sa("world"), &gen.DstInorder{Clauses: []*gen.DstClause{{Cap: v("wb"), To: &gen.To{D: da("x")}}}, Remaining: &gen.To{D: da("y")}})
		}}, "wb"},
		c10Op{op{"send3 a unbounded->x", 0, func() gen.Stmt {
			return sv(&gen.SentLit{E: gen.Mon(U, "3")}, &gen.SrcOverdraft{Addr: gen.Acct("a")}, da("x"))
		}}, ""},
		c10Op{op{"send2 $w od2 ->x", 0, func() gen.Stmt {
			return sv(&gen.SentLit{E: gen.Mon(U, "2")}, &gen.SrcOverdraft{Addr: v("w"), Bounded: gen.Mon(U, "2")}, da("x"))
		}}, "w"},
		// an account variable under a cap, and under a cap inside an allotment (the same parsed script runs
		// with every value of $w: what is asked of the store must follow the value, not the first one seen)
		c10Op{op{"send3 {max2 $w, a}->x", 0, func() gen.Stmt {
			return sv(&gen.SentLit{E: gen.Mon(U, "3")}, lst(&gen.SrcCapped{Cap: gen.Mon(U, "2"), From: &gen.SrcAccount{E: v("w")}}, sa("a")), da("x"))
		}}, "w"},
		c10Op{op{"send* max4 {$w b}->x", 0, func() gen.Stmt {
			return sv(&gen.SentAll{Asset: gen.Asset(U)}, &gen.SrcCapped{Cap: gen.Mon(U, "4"), From: lst(&gen.SrcAccount{E: v("w")}, sa("b"))}, da("x"))
		}}, "w"},
	)
	return out
}

func outSig(o *Out) string {
	if o.Panic != "" {
		return "panic:" + o.Panic
	}
	if o.Err != nil {
		return "error:" + o.ErrType
	}
	return "ok:" + postingsStr(o.Postings) + " meta{" + metaStr(o) + "}"
}

func runC10(w *mc.Worker) {
	decls := c10Decls()
	ops := c10Ops()
	maxLen := 1
	maxDecl := 2
	a := bigs(0, 1, 3, 6, -2)
	b := bigs(0, 2, 5)
	aeur := bigs(0, 3)
	name := "d2-L1"
	bounds := "<= 2 declarations, 1 statement out of 40; sheets a in {0,1,3,6,-2}, b in {0,2,5}, x=0, a/EUR in {0,3}; meta acc in {a,x}; $w in {a,b,world,world:fees}; 4 store behaviours"
	type stage struct {
		name, bounds    string
		maxDecl, maxLen int
		minLen          int
	}
	stages := []stage{{name, bounds, maxDecl, maxLen, 1}}
	if w.Tier == "quick" {
		stages = append(stages, stage{"d1-L2", "<= 1 declaration, 2 statements out of 40; same inputs", 1, 2, 2},
			stage{"d2-L2", "2 declarations, 2 statements out of 40; same inputs", 2, 2, 2})
	} else {
		a = append(a, H)
		stages = []stage{
			{"d2-L2", "<= 2 declarations, 1..2 statements out of 40; sheets a in {0,1,3,6,-2,H}, b in {0,2,5}, a/EUR in {0,3}; meta acc in {a,x}; $w in {a,b,world,world:fees}; 4 store behaviours", 2, 2, 1},
			{"d1-L3", "<= 1 declaration, 3 statements out of 40; same inputs", 1, 3, 3},
		}
	}
	flags := map[string]struct{}{interpreter.ExperimentalOverdraftFunctionFeatureFlag: {}}
	for _, sg := range stages {
		sg := sg
		w.Stage(sg.name, sg.bounds, func() {
			w.Outer(sg.name+"/c10", 0, func(o *mc.Explorer) {
				prog := &gen.Program{}
				have := map[string]bool{}
				nd := o.Choose(sg.maxDecl + 1)
				last := -1
				for i := 0; i < nd; i++ {
					// strictly increasing indices: each subset once, in declaration order
					rest := len(decls) - (last + 1)
					if rest <= 0 {
						return
					}
					di := last + 1 + o.Choose(rest)
					last = di
					prog.Vars = append(prog.Vars, decls[di].Mk())
					have[decls[di].Name] = true
				}
				if have["bw"] && !have["w"] {
					return // $bw reads balance($w): only meaningful after $w is declared
				}
				var avail []c10Op
				for _, p := range ops {
					if p.Needs == "" || have[p.Needs] {
						avail = append(avail, p)
					}
				}
				n := sg.minLen + o.Choose(sg.maxLen-sg.minLen+1)
				for i := 0; i < n; i++ {
					prog.Stmts = append(prog.Stmts, avail[o.Choose(len(avail))].Mk())
				}
				text := gen.Text(prog)
				if !w.Mine(text) {
					return
				}
				w.Owned()
				pr, ok := mustParse(w, text)
				if !ok {
					return
				}
				w.Inner(0, func(in *mc.Explorer) {
					bal := env.Bal{
						"a": {"USD": a[in.Choose(len(a))], "EUR": aeur[in.Choose(len(aeur))]},
						"b": {"USD": b[in.Choose(len(b))]},
						"x": {"USD": bi(7)},
						"world:fees": {"USD": bi(4)},
						// the ledger's own view of @world (usually negative): must never be asked for nor matter
						"world": {"USD": bi(-100)},
					}
					meta := env.Meta{}
					vars := map[string]string{}
					if have["v"] {
						meta["b"] = map[string]string{"acc": []string{"a", "x"}[in.Choose(2)]}
					}
					if have["w"] || have["bw"] {
						vars["w"] = []string{"a", "b", "world", "world:fees"}[in.Choose(4)]
					}
					inp := ref.Inputs{Vars: vars, Bal: bal, Meta: meta, OverdraftFlag: true}
					model := ref.Run(prog, inp)
					var sigs [4]string
					var exact *env.Store
					var outs [4]*Out
					for md := env.Exact; md <= env.Static; md++ {
						st := env.New(md, bal, meta)
						outs[md] = RunReal(pr, vars, st, flags)
						sigs[md] = outSig(outs[md])
						if md == env.Exact {
							exact = st
						}
					}
					key := text + "|" + varsStr(vars) + "|" + balStr(bal) + "|" + fmt.Sprint(meta)
					reads := map[[2]string]bool{}
					for _, r := range model.Reads {
						reads[r] = true
					}
					nt := exact.Calls >= 2 || len(reads) >= 2
					outcome := fmt.Sprintf("calls=%d agree=%v class=%s", exact.Calls, sigs[0] == sigs[1] && sigs[1] == sigs[2] && sigs[2] == sigs[3], outs[0].Class())
					w.Eval(key, nt, outcome)
					w.Count("runs", 4)
					mk := func() Case {
						return Case{Script: text, Vars: copyVars(vars), Balances: balStr(bal), Meta: meta,
							Observed: fmt.Sprintf("exact: %s | sparse: %s | superset: %s | static: %s", sigs[0], sigs[1], sigs[2], sigs[3]),
							Extra:    map[string]any{"queries_exact": exact.Log}}
					}
					feat := c10Features(text)
					for md := env.Sparse; md <= env.Static; md++ {
						if sigs[md] != sigs[env.Exact] {
							w.Violation("C10.differs:exact-vs-"+md.String()+":"+feat, "the result under the exact store differs from the result under the "+md.String()+" store", len(text)+len(balStr(bal)), mk())
							break
						}
					}
					// every balance that influences the result was requested <=> with a store that answers
					// exactly what is asked, the result is the one the reference semantics computes
					// from the true balances (a balance that was never asked for reads as 0)
					if model.Err != ref.EUnspecified && outs[env.Exact].Panic == "" {
						fs := judge(prog, inp, outs[env.Exact], model)
						for _, f := range fs {
							if strings.HasPrefix(f.Clause, "C12.") {
								continue
							}
							w.Violation("C10.exact-store-result:"+strings.SplitN(f.Clause, ".", 2)[1]+":"+feat, "under the store that answers exactly what is asked the result differs from the one the true balances give ("+f.Msg+")", len(text)+len(balStr(bal)), mk())
							break
						}
					}
					// monitors on the exact store's log
					asked := map[[2]string]bool{}
					for _, q := range exact.Log {
						if q.Kind != "balances" {
							continue
						}
						for acct, assets := range q.Q {
							if acct == "world" {
								w.Violation("C10.world-requested", "the balance of @world was requested from the store", len(text), mk())
							}
							for _, as := range assets {
								asked[[2]string{acct, as}] = true
							}
						}
					}
					if model.Err == "" {
						var missing []string
						for r := range reads {
							if r[0] != "world" && !asked[r] {
								missing = append(missing, r[0]+"/"+r[1])
							}
						}
						if len(missing) > 0 {
							sort.Strings(missing)
							w.Violation("C10.not-requested:"+feat, "balances that influence the result were never requested: "+strings.Join(missing, ","), len(text), mk())
						}
					}
					if nt {
						w.Sample(outcome, mk())
					}
				})
			})
		})
	}
}

func c10Features(text string) string {
	var fs []string
	for _, kw := range []string{"balance (", "overdraft (", "meta (", "save", "$w", "unbounded", "overdraft up"} {
		if strings.Contains(text, kw) {
			fs = append(fs, strings.ReplaceAll(strings.ReplaceAll(kw, " (", "()"), " ", ""))
		}
	}
	return strings.Join(fs, ",")
}

var _ = big.NewInt
