package props

import (
	"fmt"
	"strconv"
	"strings"
	"time"

	numscript "github.com/formancehq/numscript"
	"github.com/formancehq/numscript/internal/verifmc/gen"
	"github.com/formancehq/numscript/internal/verifmc/mc"
	"github.com/formancehq/numscript/internal/verifmc/ref"
)

// C14 The parser is total: any text yields a tree and located errors, never a crash.

func init() {
	mc.Register(&mc.Property{
		ID:    "C14",
		Title: "The parser is total",
		Rule: "(a) every valid script of the grammar-complete generator up to weight W; (b) deviation-bounded edits of each, in a one-line layout and in a one-token-per-line layout with mixed LF / CRLF endings: truncation at EVERY byte offset, deletion and duplication of every token and of every whole construct (declaration, statement, clause), insertion before and replacement of every token by every entry of a " + alphaN + "-entry token alphabet (all token kinds, 25-digit numerals, 08%, 1/0, non-ASCII, unterminated string / comment, stray characters); (c) ALL token sequences of length <= L over that alphabet (token soups); " +
			"oracle: Parse returns without panicking; the reference recognizer (maximal-munch lexer + Earley over the grammar of Numscript.g4) says valid => zero errors, invalid => >= 1 error; every error starts inside the text or at its end; ParseErrorsToString does not panic; " +
			"non-trivial = the text is not a generator script as such (it was edited or is a soup); distinct = the text",
		Assumptions: []string{"texts whose lexing depends on nested comment openers are not modelled by the reference lexer and are only checked for crashes and error positions", "the reference grammar is a transcription of Numscript.g4; its agreement with the generated parser on every explored text is itself part of what is checked"},
		QuickBudget: 240 * time.Second,
		ThoroBudget: 12 * time.Minute,
		UseJournal:  true,
		Run:         runC14,
	})
}

var tokenAlphabet = []string{
	"vars", "max", "source", "destination", "send", "from", "up", "to", "remaining", "allowing", "unbounded",
	"overdraft", "kept", "save", "(", ")", "[", "]", "{", "}", ",", "=", "*", "-", "+",
	"1/2", "50%", "\"s\"", "ident", "5", "$v", "@a", "USD",
	// exotic
	"1234567890123456789012345", "99999999999999999999%", "1.8446744073709551616%", "123456789012345678901234567890/7", "7/123456789012345678901234567890", "9223372036854775808", "-9223372036854775809", "08%", "1/0", "\"é€\"", "é", "\"unterminated", "/* unterminated", "// c\n", "-7", "12.5%", "$1", "@", "%",
	// blanks inside a ratio (each optional on its own); a line comment that runs to the end of the text
	"1/ 6", "1 /6", "3 / 4", "// c",
	// numerals that are long only because of leading zeros
	"00000000000000000042", "-000000000000000000000042", "08/10", "1/09",
	// portions that are zero, not in lowest terms, above one, or 0/0
	"0/0", "0/7", "4/6", "7/3", "0%",
	// strings whose content ends in a backslash, or holds backslash sequences that are no escapes
	"\"a\\\\\"", "\"C:\\dir\\%d\"",
}

var alphaN = strconv.Itoa(len(tokenAlphabet))

// textSubject is shared by C14 (parser) and C18 (editor analysis): it enumerates the text
// space and calls body(text, edited) for every text of this worker's shard.
func textSpace(w *mc.Worker, tier string, body func(text string, edited bool)) {
	weight, soupLen, stmts := 2, 3, 2
	if tier == "thorough" {
		weight, soupLen, stmts = 3, 4, 2
	}
	g := &Full{MaxStmts: stmts, Depth: 2}
	seen := map[uint64]bool{}
	once := func(text string, edited bool) {
		h := mc.Hash64(text)
		if seen[h] {
			return
		}
		if len(seen) < 3_000_000 {
			seen[h] = true
		}
		body(text, edited)
	}
	w.Stage(fmt.Sprintf("edits-w%d", weight), fmt.Sprintf("generator scripts of weight <= %d and all their single edits (every truncation, token deletion / duplication / insertion / replacement over the "+alphaN+"-entry alphabet)", weight), func() {
		w.Outer(fmt.Sprintf("edits-w%d/script", weight), weight, func(o *mc.Explorer) {
			prog := g.Program(o)
			pr := gen.Print(prog)
			base := pr.Text()
			if !w.Mine(base) {
				return
			}
			w.Owned()
			w.Inner(0, func(in *mc.Explorer) {
				kind := in.Choose(8)
				switch kind {
				case 6, 7: // duplicate / delete a whole construct (a copied or cut declaration, statement, clause)
					var spans []gen.NodeSpan
					for _, sp := range pr.Spans {
						switch sp.Kind {
						case "VarDecl", "SendStatement", "SaveStatement", "FnCall", "SourceAllotmentItem", "DestinationAllotmentItem", "DestinationInorderClause", "SourceCapped", "SourceOverdraft":
							spans = append(spans, sp)
						}
					}
					if len(spans) == 0 {
						return
					}
					sp := spans[in.Choose(len(spans))]
					toks := append([]string{}, pr.Toks[:sp.First]...)
					if kind == 6 {
						toks = append(toks, pr.Toks[sp.First:sp.Last+1]...)
						toks = append(toks, pr.Toks[sp.First:sp.Last+1]...)
					}
					toks = append(toks, pr.Toks[sp.Last+1:]...)
					once(strings.Join(toks, " ")+"\n", true)
				case 0:
					once(base, false)
				case 1: // truncation at every byte offset
					if len(base) == 0 {
						return
					}
					k := in.Choose(len(base))
					once(base[:k], true)
				case 2, 3: // delete / duplicate token i
					if len(pr.Toks) == 0 {
						return
					}
					i := in.Choose(len(pr.Toks))
					toks := append([]string{}, pr.Toks[:i]...)
					if kind == 3 {
						toks = append(toks, pr.Toks[i], pr.Toks[i])
					}
					toks = append(toks, pr.Toks[i+1:]...)
					once(strings.Join(toks, " ")+"\n", true)
					once(mixedLines(toks, i), true)
					once(mixedLinesWith(toks, i, "\r"), true)
				case 4, 5: // insert before / replace token i
					i := in.Choose(len(pr.Toks) + 1)
					a := tokenAlphabet[in.Choose(len(tokenAlphabet))]
					if kind == 5 && i == len(pr.Toks) {
						return
					}
					toks := append([]string{}, pr.Toks[:i]...)
					toks = append(toks, a)
					if kind == 4 {
						toks = append(toks, pr.Toks[i:]...)
					} else {
						toks = append(toks, pr.Toks[i+1:]...)
					}
					once(strings.Join(toks, " ")+"\n", true)
					once(mixedLines(toks, i), true)
					once(mixedLinesWith(toks, i, "\n\r"), true)
				}
			})
		})
	})
	// argument lists while they are being typed: holes (keywords, stray tokens) among valid arguments,
	// fewer and more arguments than the function takes
	w.Stage("call-arguments", "set_tx_meta / set_account_meta / an unknown function as statements and balance / meta / overdraft as the origin of a declared variable, with ALL argument lists of length <= 4 over {string, variable, account, asset, number, `max`, `from`, `to`}", func() {
		argAlpha := []string{"\"k\"", "$v", "@a", "USD/2", "1", "max", "from", "to"}
		shapes := []string{"vars { account $v }\nset_tx_meta ( %s )\n", "vars { account $v }\nset_account_meta ( %s )\n", "vars { account $v }\nfoo ( %s )\n",
			"vars { account $v monetary $b = balance ( %s ) }\nsend $b ( source = $v destination = @x )\n", "vars { account $v string $b = meta ( %s ) }\nset_tx_meta ( $b , $v )\n", "vars { account $v monetary $b = overdraft ( %s ) }\nsend $b ( source = $v destination = @x )\n"}
		w.Outer("call-arguments/shape", 0, func(o *mc.Explorer) {
			sh := shapes[o.Choose(len(shapes))]
			n := o.Choose(5)
			if !w.Mine(fmt.Sprint(sh, n)) {
				return
			}
			w.Owned()
			w.Inner(0, func(in *mc.Explorer) {
				var args []string
				for i := 0; i < n; i++ {
					args = append(args, argAlpha[in.Choose(len(argAlpha))])
				}
				once(fmt.Sprintf(sh, strings.Join(args, " , ")), true)
			})
		})
	})
	// long flat constructs: the cost of parsing / analysing must stay (near) linear in their length.
	// An analysis that doubles its work per operand does not return for the longest ones; the
	// worker's watchdog (120 s without progress on a case that takes milliseconds) reports the text.
	w.Stage("long-constructs", "left-deep chains of 8 / 16 / 32 / 64 operands of + and - (numbers, monetaries, variables first / last; in a sent amount, a cap, a metadata value), in-order sources, ordered destinations, allotments, declaration blocks and statement lists of 8 / 16 / 32 / 64 elements", func() {
		w.Outer("long-constructs/shape", 0, func(o *mc.Explorer) {
			n := []int{8, 16, 32, 64}[o.Choose(4)]
			kind := o.Choose(10)
			if !w.Mine(fmt.Sprint("long", n, kind)) {
				return
			}
			w.Owned()
			rep := func(first, item, sep string) string {
				parts := []string{first}
				for i := 1; i < n; i++ {
					parts = append(parts, item)
				}
				return strings.Join(parts, sep)
			}
			text := ""
			switch kind {
			case 0:
				text = "send " + rep("[ USD 1 ]", "[ USD 1 ]", " + ") + " ( source = @a destination = @b )\n"
			case 1:
				text = "vars { monetary $m number $n }\nsend " + rep("$m", "[ USD 2 ]", " - ") + " ( source = @a destination = @b )\nset_tx_meta ( \"k\" , " + rep("$n", "1", " + ") + " )\n"
			case 2:
				text = "vars { monetary $m }\nsend [ USD 9 ] ( source = max " + rep("[ USD 1 ]", "$m", " + ") + " from @a destination = @b )\n"
			case 3:
				text = "set_tx_meta ( \"k\" , " + rep("1", "2", " - ") + " + \"s\" )\n"
			case 4:
				text = "send [ USD 9 ] ( source = { " + rep("@a", "@b", " ") + " } destination = @x )\n"
			case 5:
				text = "send [ USD 9 ] ( source = @world destination = { " + rep("max [ USD 1 ] to @a", "max [ USD 1 ] kept", " ") + " remaining to @x } )\n"
			case 6:
				text = "send [ USD 9 ] ( source = @world destination = { " + rep("1/128 to @a", "1/128 to @b", " ") + " remaining kept } )\n"
			case 7:
				var ds, us []string
				for i := 0; i < n; i++ {
					ds = append(ds, fmt.Sprintf("account $v%d", i))
					us = append(us, fmt.Sprintf("$v%d", i))
				}
				text = "vars { " + strings.Join(ds, " ") + " }\nsend [ USD 9 ] ( source = { " + strings.Join(us[:n/2], " ") + " } destination = @x )\n"
			case 8:
				text = rep("send [ USD 1 ] ( source = @a destination = @b )", "save [ USD 1 ] from @a", "\n") + "\n"
			case 9:
				text = "vars { number $n }\nset_tx_meta ( \"k\" , " + rep("1", "$n", " + ") + " )\n"
			}
			w.Inner(0, func(in *mc.Explorer) { once(text, true) })
		})
	})
	w.Stage(fmt.Sprintf("soups-L%d", soupLen), fmt.Sprintf("all token sequences of length <= %d over the "+alphaN+"-entry alphabet, space separated", soupLen), func() {
		w.Outer(fmt.Sprintf("soups-L%d/first", soupLen), 0, func(o *mc.Explorer) {
			first := tokenAlphabet[o.Choose(len(tokenAlphabet))]
			n := 1 + o.Choose(soupLen)
			if !w.Mine(fmt.Sprint(first, n)) {
				return
			}
			w.Owned()
			w.Inner(0, func(in *mc.Explorer) {
				toks := []string{first}
				for i := 1; i < n; i++ {
					toks = append(toks, tokenAlphabet[in.Choose(len(tokenAlphabet))])
				}
				once(strings.Join(toks, " "), true)
			})
		})
	})
}

// mixedLines lays the tokens out one per line with LF, except that the gap before token k is a
// CRLF (documents with mixed line endings: error positions and rendering must still hold).
func mixedLines(toks []string, k int) string { return mixedLinesWith(toks, k, "\r\n") }

// mixedLinesWith: one token per line with LF, except that the gap before token k is `odd`.
func mixedLinesWith(toks []string, k int, odd string) string {
	var sb strings.Builder
	for i, t := range toks {
		if i > 0 {
			if i == k || (k == 0 && i == 1) {
				sb.WriteString(odd)
			} else {
				sb.WriteString("\n")
			}
		}
		sb.WriteString(t)
	}
	sb.WriteString("\n")
	return sb.String()
}

func posInText(text string, line, char int) bool {
	lines := strings.Split(text, "\n")
	if line < 0 || line >= len(lines) || char < 0 {
		return false
	}
	return char <= len([]rune(lines[line]))
}

func textFeatures(text string) string {
	var fs []string
	if !isASCII(text) {
		fs = append(fs, "non-ascii")
	}
	for _, t := range ref.Lex(text).Toks {
		if t.Kind == "NUMBER" {
			if _, err := strconv.ParseInt(t.Text, 10, 64); err != nil {
				fs = append(fs, "number-beyond-int64")
				break
			}
		}
	}
	return strings.Join(fs, ",")
}

// c14Probe: an erroneous text parsed BEFORE each case's text; the errors reported for it must still
// be the same (and inside it) after the later parse — a result belongs to its own text for good.
const c14Probe = "send [COIN 10] (\n  source = @a\n  destination = \nset_tx_meta(1"

func errsKey(errs []numscript.ParserError) string {
	var sb strings.Builder
	for _, e := range errs {
		fmt.Fprintf(&sb, "%d:%d-%d:%d %s|", e.Range.Start.Line, e.Range.Start.Character, e.Range.End.Line, e.Range.End.Character, e.Msg)
	}
	return sb.String()
}

func runC14(w *mc.Worker) {
	var probe numscript.ParseResult
	probeKey := ""
	mkProbe := func() {
		guard(func() { probe = numscript.Parse(c14Probe); probeKey = errsKey(probe.GetParsingErrors()) })
	}
	mkProbe()
	textSpace(w, w.Tier, func(text string, edited bool) {
		w.Journal(text)
		var pr numscript.ParseResult
		pmsg, where := guard(func() { pr = numscript.Parse(text) })
		c := Case{Script: text}
		if probeKey != "" {
			now := ""
			guard(func() { now = errsKey(probe.GetParsingErrors()) })
			if now != probeKey {
				c2 := c
				c2.Observed = "errors of the earlier text before: " + probeKey + " after: " + now
				c2.Extra = map[string]any{"earlier_text": c14Probe}
				w.Violation("C14.earlier-result-changed", "the errors reported for an earlier text changed when a later text was parsed (they no longer describe the text they were reported for)", len(text), c2)
				mkProbe()
			}
		}
		if pmsg != "" {
			w.Eval(text, edited, "panic")
			c.Observed = "panic: " + pmsg + " @" + where
			w.Violation("C14.panic@"+where, "Parse panicked: "+pmsg, len(text), c)
			return
		}
		errs := pr.GetParsingErrors()
		valid, modelled := ref.InLanguage(text)
		outcome := fmt.Sprintf("valid=%v errors=%v", valid, len(errs) > 0)
		if !modelled {
			outcome = "unmodelled-lexing"
		}
		w.Eval(text, edited, outcome)
		if modelled {
			if valid && len(errs) > 0 {
				c.Observed = fmt.Sprintf("%d errors, first: %s at %d:%d", len(errs), errs[0].Msg, errs[0].Range.Start.Line, errs[0].Range.Start.Character)
				// cause: are all reported errors located exactly at number literals beyond int64?
				big := map[[2]int]bool{}
				for _, t := range ref.Lex(text).Toks {
					if t.Kind == "NUMBER" {
						if _, err := strconv.ParseInt(t.Text, 10, 64); err != nil {
							big[[2]int{t.Line, t.Col}] = true
						}
					}
				}
				all := len(big) > 0
				for _, e := range errs {
					if !big[[2]int{e.Range.Start.Line, e.Range.Start.Character}] {
						all = false
					}
				}
				if all {
					w.Violation("C14.valid-rejected:only-at-number-literals-beyond-int64", "a syntactically valid script was reported with errors (all of them at number literals that do not fit 64 bits)", len(text), c)
				} else {
					w.Violation("C14.valid-rejected:"+textFeatures(text), "a syntactically valid script was reported with errors", len(text), c)
				}
			}
			if !valid && len(errs) == 0 {
				c.Observed = "no error reported"
				w.Violation("C14.invalid-accepted:"+textFeatures(text), "a text that is not a script was accepted without any error", len(text), c)
			}
		}
		for _, e := range errs {
			if !posInText(text, e.Range.Start.Line, e.Range.Start.Character) {
				c.Observed = fmt.Sprintf("error %q starts at %d:%d", e.Msg, e.Range.Start.Line, e.Range.Start.Character)
				w.Violation("C14.error-position:"+textFeatures(text), "a reported error starts outside the text", len(text), c)
				break
			}
		}
		if len(errs) > 0 {
			pmsg, where = guard(func() { _ = numscript.ParseErrorsToString(errs, text) })
			if pmsg != "" {
				c.Observed = "ParseErrorsToString panicked: " + pmsg
				w.Violation("C14.render-panic@"+where, "rendering the reported errors against the source panicked: "+pmsg, len(text), c)
			}
		}
		if edited {
			w.Sample(outcome, c)
		}
	})
}
