package props

import (
	"math/big"
	"time"

	"github.com/formancehq/numscript/internal/verifmc/env"
	"github.com/formancehq/numscript/internal/verifmc/mc"
	"github.com/formancehq/numscript/internal/verifmc/ref"
)

// C04 Sources are drawn in declared order, each to its limit before the next.

func init() {
	mc.Register(&mc.Property{
		ID:    "C04",
		Title: "Sources are drawn in declared order",
		Rule: "all single-send scripts `send $amt|[USD *] (source = S destination = @x)` with S any source tree within the stage's weight/depth bound over leaves {@a,@b,@world,$v, a/b with bounded overdraft, a/b unbounded}, caps, in-order lists, allotments x all balance sheets x all amounts x all values of $v; (c) the shared small alphabets: statements taking amounts / caps / bounds / portions from variables incl. arithmetic on them (vars-L*), statements about edge relations - overdraft bound 0 or negative, an account paying itself, sources after a capped @world, an account named world:fees, saving exactly the balance (edge-L*), statements over two assets with amounts and accounts from balance() / overdraft() / meta() variables (origin-L*); " +
			"oracle: per-account debit totals == reference greedy draw, send-all rejections; non-trivial = the reference draw succeeded with >= 2 contributing accounts or a binding cap/balance limit, or a send-all rejection; distinct = script text + inputs",
		Assumptions: []string{
			"destination fixed to @x so that debits are the draws; amounts enter through the monetary variable $amt (literal amounts are covered by C03/C15)",
			"reference semantics in harness/ref/sem.go (running balance within a statement, caps and availability clamped at zero)",
		},
		QuickBudget: 240 * time.Second,
		ThoroBudget: 12 * time.Minute,
		Run:         runC04,
	})
}

func c04Src(tier string) *SrcCfg {
	c := &SrcCfg{
		Asset:     "USD",
		Accts:     ws(0, "a", "b", "world"),
		VarAccts:  ws(0, "$v"),
		Grants:    cat(ws(0, "2"), ws(1, "-1", "$cg")), // $cg: a monetary variable holding a grant beyond 2^64 (never a literal)
		GrantAcct: ws(0, "a", "b"),
		Unbounded: true,
		Caps:      cat(ws(0, "2", "0", "5"), ws(1, "-1", "$cc")),
		Vecs: []PortVec{
			{[]string{"1/2", "1/2"}, 0},
			{[]string{"1/3", "remaining"}, 0},
			{[]string{"$p", "remaining"}, 1},
			{[]string{"1/3", "1/3", "1/3"}, 1}, // a leftover of two units to hand out one by one
		},
		ListLens:   cat(ws(0, "2"), ws(1, "1", "3", "0")),
		WOverdraft: 1, WUnbounded: 1, WVar: 1, WInorder: 1, WCapped: 1, WAllot: 2,
	}
	return c
}

func runC04(w *mc.Worker) {
	owns := clausesOf("C04.")
	nontriv := func(m *ref.Result, out *Out) bool {
		if m.Err == ref.EUnboundedInSendAll || m.Err == ref.EAllotmentInSendAll {
			return true
		}
		if m.Err != "" || len(m.Stmts) == 0 {
			return false
		}
		for _, st := range m.Stmts {
			if st.Contributors >= 2 || st.CapBinding {
				return true
			}
		}
		return false
	}
	dst := &DstCfg{Asset: "USD", Accts: ws(0, "x"), WKept: -1, WVar: -1, WInorder: -1, WAllot: -1}
	balQ := []*big.Int{bi(0), bi(1), bi(3), bi(6), bi(-2)}
	amtQ := []*big.Int{bi(0), bi(1), bi(2), bi(4), bi(7)}
	balT := append(append([]*big.Int{}, balQ...), H)
	amtT := append(append([]*big.Int{}, amtQ...), H, new(big.Int).Add(H, bi(3)))
	base := sendSpace{Src: c04Src(w.Tier), Dst: dst, Modes: []string{"fixed", "all"}, Accts: []string{"a", "b"},
		VarAcctVals: []string{"a", "b", "world"}, PortVals: []string{"1/2", "1/3", "0/1", "1/1"}, Asset: "USD"}
	stage := func(name, bounds string, budget, depth int, bal, amt []*big.Int) {
		sp := base
		sp.Name, sp.Bounds, sp.Budget, sp.SrcDepth = name, bounds, budget, depth
		sp.BalDom, sp.AmtDom = bal, amt
		runSendSpace(w, &sp, owns, nontriv)
	}
	runVarSeqSpace(w, "vars-L2", 1, 2, func(c *seqCase, vars map[string]string, bal env.Bal) {
		judgeSeqCase(w, c, vars, bal, owns, nontriv, false)
	})
	runEdgeSeqSpace(w, "edge-L2", 1, 2, func(c *seqCase, bal env.Bal) {
		judgeSeqCase(w, c, nil, bal, owns, nontriv, false)
		// the same against a store that omits absent / zero entries: no cache entry exists for them at first
		judgeSeqCaseMode(w, c, nil, bal, owns, nontriv, false, env.Sparse)
	})
	runOriginSeqSpace(w, "origin-L2", 1, 2, []string{"x", "a"}, func(c *seqCase, oc *originCase) {
		judgeSeqCaseX(w, c, nil, oc, owns, nontriv, false, env.Exact)
	})
	stage("pow2-w1", "source trees of weight <= 1; balances and amounts in {0,1,2^63-1,2^63,2^64-1,2^64,2^64+1,2^65}", 1, 1, pow2Dom(), pow2Dom())
	if w.Tier == "quick" {
		stage("w2-d1", "source trees of weight <= 2, nesting depth <= 1; balances {0,1,3,6,-2}^2; amounts {0,1,2,4,7}", 2, 1, balQ, amtQ)
		stage("w3-d2", "source trees of weight <= 3, nesting depth <= 2; balances {0,1,3,6,-2}^2; amounts {0,1,2,4,7}", 3, 2, balQ, amtQ)
		stage("w4-d2", "source trees of weight <= 4, nesting depth <= 2; balances {0,1,3,6,-2}^2; amounts {0,1,2,4,7}", 4, 2, balQ, amtQ)
	} else {
		stage("w3-d2-H", "source trees of weight <= 3, nesting depth <= 2; balances {0,1,3,6,-2,H}^2; amounts {0,1,2,4,7,H,H+3}", 3, 2, balT, amtT)
		stage("w4-d2", "source trees of weight <= 4, nesting depth <= 2; balances {0,1,3,6,-2}^2; amounts {0,1,2,4,7}", 4, 2, balQ, amtQ)
		stage("w5-d3", "source trees of weight <= 5, nesting depth <= 3; balances {0,1,3,6,-2}^2; amounts {0,1,2,4,7}", 5, 3, balQ, amtQ)
	}
}
