package props

import (
	"fmt"
	"math/big"
	"strings"

	"github.com/formancehq/numscript/internal/verifmc/env"
	"github.com/formancehq/numscript/internal/verifmc/gen"
	"github.com/formancehq/numscript/internal/verifmc/mc"
	"github.com/formancehq/numscript/internal/verifmc/ref"
)

// sendSpace: a bounded space of single-send scripts x inputs.
type sendSpace struct {
	Name, Bounds       string
	Budget             int
	SrcDepth, DstDepth int
	Src                *SrcCfg
	Dst                *DstCfg
	Modes              []string // "fixed" (send $amt), "all" (send [A *]), "lit:<n>" (send [A n])
	Accts              []string // accounts that get a balance from BalDom
	BalDom             []*big.Int
	AmtDom             []*big.Int
	VarAcctVals        []string
	PortVals           []string
	CapVals            []*big.Int // values of $c* variables
	Asset              string
}

func varType(name string) string {
	switch {
	case strings.HasPrefix(name, "amt"), strings.HasPrefix(name, "c"):
		return "monetary"
	case strings.HasPrefix(name, "as"):
		return "asset"
	case strings.HasPrefix(name, "v"), strings.HasPrefix(name, "u"):
		return "account"
	case strings.HasPrefix(name, "p"), strings.HasPrefix(name, "q"):
		return "portion"
	case strings.HasPrefix(name, "n"):
		return "number"
	case strings.HasPrefix(name, "s"):
		return "string"
	}
	return "string"
}

func declareUsed(prog *gen.Program) []string {
	names := usedVars(prog)
	for _, n := range names {
		prog.Vars = append(prog.Vars, &gen.VarDecl{Type: &gen.TypeName{Name: varType(n)}, Name: gen.V(n)})
	}
	return names
}

type ownsFn func(clause string) bool
type nontrivFn func(model *ref.Result, out *Out) bool

func runSendSpace(w *mc.Worker, sp *sendSpace, owns ownsFn, nontriv nontrivFn) {
	runSendSpaceU(w, sp, owns, nontriv, nil)
}

// runSendSpaceU: uvals, if given, is the value domain of the destination-side account
// variables ($u*), which may include strings outside the account grammar.
func runSendSpaceU(w *mc.Worker, sp *sendSpace, owns ownsFn, nontriv nontrivFn, uvals []string) {
	if len(sp.CapVals) == 0 {
		sp.CapVals = []*big.Int{H} // values of the $c* (cap / grant) variables: beyond 2^64
	}
	w.Stage(sp.Name, sp.Bounds, func() {
		w.Outer(sp.Name+"/send", sp.Budget, func(o *mc.Explorer) {
			mode := sp.Modes[o.Choose(len(sp.Modes))]
			src := GenSource(o, sp.Src, sp.SrcDepth)
			dst := GenDest(o, sp.Dst, sp.DstDepth)
			var sent gen.Sent
			switch {
			case mode == "fixed":
				sent = &gen.SentLit{E: gen.V("amt")}
			case mode == "numvar":
				// a monetary literal whose amount is a number variable: [USD $n]
				sent = &gen.SentLit{E: &gen.MonLit{Asset: gen.Asset(sp.Asset), Amt: gen.V("n")}}
			case mode == "all":
				sent = &gen.SentAll{Asset: gen.Asset(sp.Asset)}
			default:
				sent = &gen.SentLit{E: gen.Mon(sp.Asset, strings.TrimPrefix(mode, "lit:"))}
			}
			prog := &gen.Program{Stmts: []gen.Stmt{&gen.Send{Sent: sent, Src: src, Dst: dst}}}
			names := declareUsed(prog)
			text := gen.Text(prog)
			if !w.Mine(text) {
				return
			}
			w.Owned()
			pr, ok := mustParse(w, text)
			if !ok {
				return
			}
			w.Inner(0, func(in *mc.Explorer) {
				bal := env.Bal{}
				for _, a := range sp.Accts {
					bal[a] = map[string]*big.Int{sp.Asset: sp.BalDom[in.Choose(len(sp.BalDom))]}
				}
				vars := map[string]string{}
				for _, n := range names {
					switch varType(n) {
					case "monetary":
						if strings.HasPrefix(n, "amt") {
							vars[n] = sp.Asset + " " + sp.AmtDom[in.Choose(len(sp.AmtDom))].String()
						} else {
							vars[n] = sp.Asset + " " + sp.CapVals[in.Choose(len(sp.CapVals))].String()
						}
					case "account":
						if uvals != nil && strings.HasPrefix(n, "u") {
							vars[n] = uvals[in.Choose(len(uvals))]
						} else {
							vars[n] = sp.VarAcctVals[in.Choose(len(sp.VarAcctVals))]
						}
					case "portion":
						vars[n] = sp.PortVals[in.Choose(len(sp.PortVals))]
					case "number":
						vars[n] = sp.AmtDom[in.Choose(len(sp.AmtDom))].String()
					}
				}
				judgeOne(w, prog, text, pr, vars, bal, nil, owns, nontriv)
			})
		})
	})
}

// judgeOne runs one case on the real interpreter and on the model and records the outcome.
func judgeOne(w *mc.Worker, prog *gen.Program, text string, pr parsedT, vars map[string]string, bal env.Bal, meta env.Meta, owns ownsFn, nontriv nontrivFn) (*Out, *ref.Result) {
	st := env.New(env.Exact, bal, meta)
	out := RunReal(pr, vars, st, nil)
	in := ref.Inputs{Vars: vars, Bal: bal, Meta: meta}
	model := ref.Run(prog, in)
	fs := judge(prog, in, out, model)
	key := text + "|" + varsStr(vars) + "|" + balStr(bal)
	outcome := "model=" + orOK(model.Err) + " real=" + out.Class()
	nt := false
	if model.Err == "" {
		c, cb := 0, false
		for _, s := range model.Stmts {
			if s.Contributors > c {
				c = s.Contributors
			}
			cb = cb || s.CapBinding
		}
		outcome += fmt.Sprintf(" contributors=%d capbinding=%v postings=%d", c, cb, len(out.Postings))
	}
	if nontriv != nil {
		nt = nontriv(model, out)
	}
	w.Eval(key, nt, outcome)
	mk := func() Case {
		c := Case{Script: text, Vars: copyVars(vars), Balances: balStr(bal), Meta: meta,
			Observed: out.Class() + ": " + postingsStr(out.Postings)}
		if out.Err != nil {
			c.Observed = out.Class() + ": " + out.Err.Error()
		}
		c.Expected = "model: " + orOK(model.Err)
		if model.Err == "" {
			mf, _, _ := modelFlows(model)
			c.Expected += " flows " + flowsStr(mf)
		}
		return c
	}
	for _, f := range fs {
		if !owns(f.Clause) {
			w.Count("other-property-clauses:"+f.Clause, 1)
			continue
		}
		size := len(text)
		for _, v := range vars {
			size += len(v)
		}
		for _, m := range bal {
			for _, v := range m {
				size += v.BitLen()
			}
		}
		sig := f.Clause
		if f.Clause == "C12.panic" {
			sig += "@" + out.Where
		} else if strings.HasPrefix(f.Clause, "C02.empty") || strings.HasPrefix(f.Clause, "C02.kept") {
			// monitor clauses about account names: the clause is the cause
		} else {
			sig += ":" + caseFeatures(prog, in, model)
		}
		w.Violation(sig, f.Msg, size, mk())
	}
	if nt {
		w.Sample(outcome, mk())
	}
	return out, model
}

func orOK(s string) string {
	if s == "" {
		return "ok"
	}
	return s
}

func clausesOf(prefixes ...string) ownsFn {
	return func(c string) bool {
		for _, p := range prefixes {
			if strings.HasPrefix(c, p) {
				return true
			}
		}
		return false
	}
}

func bigs(ns ...int64) []*big.Int {
	out := make([]*big.Int, len(ns))
	for i, n := range ns {
		out[i] = bi(n)
	}
	return out
}
