package props

import (
	"fmt"
	"math/big"
	"sort"
	"strings"
	"time"

	"github.com/formancehq/numscript/internal/verifmc/env"
	"github.com/formancehq/numscript/internal/verifmc/gen"
	"github.com/formancehq/numscript/internal/verifmc/mc"
	"github.com/formancehq/numscript/internal/verifmc/ref"
)

// C09 Statements compose sequentially — metamorphic: both sides of the equation are the
// real interpreter; the second run starts the real code from the non-initial state.

func init() {
	mc.Register(&mc.Property{
		ID:    "C09",
		Title: "Statements compose sequentially",
		Rule: "all statement sequences of length 2..L over the statement alphabet plus set_tx_meta / set_account_meta with colliding keys x all initial sheets x EVERY split point k; the same for sequences over the variable-sharing alphabet (incl. arithmetic on the variables) and the edge-relation alphabet; then BFS over histories to depth D (last-statement split) deduplicated on the visible balance vector; " +
			"oracle: run(S1..Sn,B) == run(S1..Sk,B) ++ run(Sk+1..Sn,B') for every k, and == the one-by-one chain, where B' is B updated by the postings and by the save rule in statement order; metadata of the whole == key-wise override of the parts; the whole fails iff a part fails, with the same error class; " +
			"non-trivial = a later statement draws on an account that an earlier statement credited, debited or saved from; distinct = script text + sheet",
		Assumptions: []string{"scripts have no variables reading balances (the property's own restriction)", "the save rule used to compute B' is the one stated in C08"},
		QuickBudget: 240 * time.Second,
		ThoroBudget: 12 * time.Minute,
		Run:         runC09,
	})
}

func applyPostings(b env.Bal, ps []P) {
	get := func(a, as string) *big.Int {
		if b[a] == nil {
			b[a] = map[string]*big.Int{}
		}
		if b[a][as] == nil {
			b[a][as] = new(big.Int)
		}
		return b[a][as]
	}
	for _, p := range ps {
		s := get(p.Src, p.Asset)
		s.Sub(s, p.Amt)
		d := get(p.Dst, p.Asset)
		d.Add(d, p.Amt)
	}
}

func applySave(b env.Bal, acct, asset string, amt *big.Int) {
	if b[acct] == nil {
		b[acct] = map[string]*big.Int{}
	}
	if b[acct][asset] == nil {
		b[acct][asset] = new(big.Int)
	}
	v := b[acct][asset]
	if v.Sign() <= 0 {
		return
	}
	if amt == nil {
		v.SetInt64(0)
		return
	}
	v.Sub(v, amt)
	if v.Sign() < 0 {
		v.SetInt64(0)
	}
}

func metaStr(o *Out) string {
	var parts []string
	for k, v := range o.TxJSON {
		parts = append(parts, "tx."+k+"="+v)
	}
	for a, m := range o.AcctMeta {
		for k, v := range m {
			parts = append(parts, a+"."+k+"="+v)
		}
	}
	sort.Strings(parts)
	return strings.Join(parts, ",")
}

func overrideMeta(l, r *Out) string {
	m := &Out{TxJSON: map[string]string{}, AcctMeta: map[string]map[string]string{}}
	for _, o := range []*Out{l, r} {
		for k, v := range o.TxJSON {
			m.TxJSON[k] = v
		}
		for a, mm := range o.AcctMeta {
			if m.AcctMeta[a] == nil {
				m.AcctMeta[a] = map[string]string{}
			}
			for k, v := range mm {
				m.AcctMeta[a][k] = v
			}
		}
	}
	return metaStr(m)
}

func runPart(prog *gen.Program, stmts []gen.Stmt, bal env.Bal, vars ...map[string]string) *Out {
	pp := &gen.Program{Vars: prog.Vars, HasVars: prog.HasVars, Stmts: stmts}
	pr, ok := parseQuiet(gen.Text(pp))
	if !ok {
		return &Out{Panic: "harness: part did not parse"}
	}
	var vs map[string]string
	if len(vars) > 0 {
		vs = vars[0]
	}
	return RunReal(pr, vs, env.New(c09StoreMode, bal, nil), nil)
}

// c09Check: splits = which split points to check (nil = all).
// c09StoreMode: how the store of the whole run and of every part answers (exact, or omitting absent / zero entries).
var c09StoreMode = env.Exact

func c09Check(w *mc.Worker, c *seqCase, bal env.Bal, onlyLast bool, varsOpt ...map[string]string) {
	var vars map[string]string
	if len(varsOpt) > 0 {
		vars = varsOpt[0]
	}
	n := len(c.Stmts)
	whole := RunReal(c.PR, vars, env.New(c09StoreMode, bal, nil), nil)
	key := c.Text + "|" + varsStr(vars) + "|" + balStr(bal) + "|" + c09StoreMode.String()
	report := func(clause, msg, expected string) {
		cs := Case{Script: c.Text, Vars: vars, Balances: balStr(bal), Observed: whole.Class() + ": " + postingsStr(whole.Postings) + " meta{" + metaStr(whole) + "}", Expected: expected}
		if whole.Err != nil {
			cs.Observed = whole.Class() + ": " + whole.Err.Error()
		}
		w.Violation(clause+":"+caseFeatures(c.Prog, ref.Inputs{Bal: bal}, nil), msg, len(c.Text)+len(balStr(bal)), cs)
	}
	if whole.Panic != "" {
		w.Eval(key, false, "panic")
		return // C12's subject
	}
	// one-by-one chain: B'_k for every k, from single-statement runs of the real interpreter
	states := []env.Bal{env.CloneBal(bal)}
	var chain []P
	chainMeta := &Out{TxJSON: map[string]string{}, AcctMeta: map[string]map[string]string{}}
	chainErr := ""
	chainFailAt := -1
	for i, st := range c.Stmts {
		cur := env.CloneBal(states[i])
		o := runPart(c.Prog, []gen.Stmt{st}, cur, vars)
		if o.Panic != "" {
			w.Eval(key, false, "panic-in-part")
			return
		}
		if o.Err != nil {
			chainErr = o.ErrType
			chainFailAt = i
			break
		}
		chain = append(chain, o.Postings...)
		nb := env.CloneBal(states[i])
		applyPostings(nb, o.Postings)
		if sv, ok := st.(*gen.Save); ok {
			acct, asset, amt, good := ref.SaveParams(c.Prog, ref.Inputs{Vars: vars, Bal: bal}, sv)
			if !good {
				w.Eval(key, false, "unevaluable-save")
				return
			}
			applySave(nb, acct, asset, amt)
		}
		states = append(states, nb)
		chainMeta = &Out{TxJSON: mergeS(chainMeta.TxJSON, o.TxJSON), AcctMeta: mergeM(chainMeta.AcctMeta, o.AcctMeta)}
	}
	interacts := len(whole.Postings) > 0 && n >= 2
	outcome := fmt.Sprintf("whole=%s chain=%s n=%d", whole.Class(), orOK(chainErr), n)
	w.Eval(key, interacts && whole.Err == nil, outcome)
	if chainErr != "" {
		if whole.Err == nil {
			report("C09.error", fmt.Sprintf("statement %d fails (%s) when the statements are executed one after another, but the script succeeded", chainFailAt+1, chainErr), "failure "+chainErr)
		} else if whole.ErrType != chainErr {
			report("C09.error-class", fmt.Sprintf("one-by-one execution fails at statement %d with %s, the script failed with %s", chainFailAt+1, chainErr, whole.ErrType), "failure "+chainErr)
		}
		return
	}
	if whole.Err != nil {
		report("C09.error", "every statement succeeds when executed one after another, but the script failed: "+whole.Err.Error(), "success: "+postingsStr(chain))
		return
	}
	if postingsStr(whole.Postings) != postingsStr(chain) {
		report("C09.postings-chain", "postings differ from the one-by-one execution", "postings "+postingsStr(chain))
		return
	}
	if metaStr(whole) != metaStr(chainMeta) {
		report("C09.meta", "metadata differs from the key-wise override of the one-by-one execution", "meta{"+metaStr(chainMeta)+"}")
		return
	}
	// every split point
	for k := 1; k < n; k++ {
		if onlyLast && k != n-1 {
			continue
		}
		left := runPart(c.Prog, c.Stmts[:k], bal, vars)
		right := runPart(c.Prog, c.Stmts[k:], states[k], vars)
		if left.Panic != "" || right.Panic != "" {
			continue
		}
		if left.Err != nil || right.Err != nil {
			report("C09.error", fmt.Sprintf("the script succeeds but split %d has a failing part (left=%s right=%s)", k, left.Class(), right.Class()), "both parts succeed")
			return
		}
		got := postingsStr(whole.Postings)
		want := postingsStr(append(append([]P{}, left.Postings...), right.Postings...))
		if got != want {
			report("C09.postings-split", fmt.Sprintf("split after statement %d: postings of the whole differ from left ++ right (right run started from %s)", k, balStr(states[k])), "postings "+want)
			return
		}
		if metaStr(whole) != overrideMeta(left, right) {
			report("C09.meta", fmt.Sprintf("split after statement %d: metadata of the whole is not left overridden by right", k), "meta{"+overrideMeta(left, right)+"}")
			return
		}
	}
	if interacts {
		w.Sample(outcome, Case{Script: c.Text, Balances: balStr(bal), Observed: postingsStr(whole.Postings) + " meta{" + metaStr(whole) + "}"})
	}
}

func mergeS(a, b map[string]string) map[string]string {
	o := map[string]string{}
	for k, v := range a {
		o[k] = v
	}
	for k, v := range b {
		o[k] = v
	}
	return o
}

func mergeM(a, b map[string]map[string]string) map[string]map[string]string {
	o := map[string]map[string]string{}
	for _, m := range []map[string]map[string]string{a, b} {
		for acct, mm := range m {
			if o[acct] == nil {
				o[acct] = map[string]string{}
			}
			for k, v := range mm {
				o[acct][k] = v
			}
		}
	}
	return o
}

func runC09(w *mc.Worker) {
	ops := append(coreOps(), metaOps()...)
	sheetsQ := &sheetDom{A: bigs(0, 1, 3, 6, -2), B: bigs(0, 2, -2), X: bigs(0, 2)}
	sheetsT := &sheetDom{A: append(bigs(0, 1, 3, 6, -2), H), B: bigs(0, 2, -2), X: bigs(0, 2), AEur: bigs(0, 3)}
	seq := func(name, bounds string, minLen, maxLen, budget int, sh *sheetDom) {
		runSeqSpace(w, &seqSpace{Name: name, Bounds: bounds, Ops: ops, MinLen: minLen, MaxLen: maxLen, Budget: budget, Sheets: sh},
			func(c *seqCase, bal env.Bal) { c09Check(w, c, bal, false) })
	}
	vl := 2
	if w.Tier == "thorough" {
		vl = 3
	}
	runVarSeqSpace(w, fmt.Sprintf("vars-L%d", vl), 2, vl, func(c *seqCase, vars map[string]string, bal env.Bal) { c09Check(w, c, bal, false, vars) })
	runEdgeSeqSpace(w, fmt.Sprintf("edge-L%d", vl+1), 2, vl+1, func(c *seqCase, bal env.Bal) {
		c09Check(w, c, bal, false)
		// the same against a store that omits absent and zero entries (whole run and every part)
		c09StoreMode = env.Sparse
		c09Check(w, c, bal, false)
		c09StoreMode = env.Exact
	})
	core := append(append([]op{}, coreOps()[:22]...), metaOps()...)
	if w.Tier == "quick" {
		seq("seq-L2", "all sequences of length 2 over the 35-statement alphabet (28 money statements + 7 metadata calls, <= 2 deviations) x 30 sheets, every split", 2, 2, 2, sheetsQ)
		seq("seq-L3", "all sequences of length 3 over the 35-statement alphabet (<= 1 deviation) x 30 sheets, every split", 3, 3, 1, sheetsQ)
		runSeqBFS(w, "bfs-D4", "BFS to depth 4 over 29 statements from 30 initial sheets, deduplicated on the visible balance vector, chain + last split", core, sheetList(sheetsQ), 4,
			func(c *seqCase, bal env.Bal) { c09Check(w, c, bal, true) })
	} else {
		seq("seq-L3", "all sequences of length 2..3 over the 35-statement alphabet (<= 2 deviations) x 72 sheets (two assets, H), every split", 2, 3, 2, sheetsT)
		seq("seq-L4", "all sequences of length 4 over the 35-statement alphabet (no deviation) x 30 sheets, every split", 4, 4, 0, sheetsQ)
		runSeqBFS(w, "bfs-D6", "BFS to depth 6 over 29 statements from 30 initial sheets, deduplicated on the visible balance vector, chain + last split", core, sheetList(sheetsQ), 6,
			func(c *seqCase, bal env.Bal) { c09Check(w, c, bal, true) })
	}
}
