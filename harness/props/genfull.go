package props

import (
	"github.com/formancehq/numscript/internal/verifmc/gen"
	"github.com/formancehq/numscript/internal/verifmc/mc"
)

// Full is the grammar-complete, typed program generator used by the syntax- and
// checker-level properties (C14-C19): every alternative of every rule of Numscript.g4 is a
// choice, nesting is bounded by depth and by the weight budget, the default path yields
// statically valid scripts. Variables come from a fixed pool (one or two names per type) and
// exactly the used ones are declared.
type Full struct {
	e        *mc.Explorer
	used     []string
	usedSet  map[string]bool
	MaxStmts int
	Depth    int
	// VarsFree makes variable alternatives cost nothing (variable-rich scripts)
	VarsFree bool
	// ExtraUnused adds, as a costed alternative, a declaration that nothing uses
	ExtraUnused bool
	// Unchecked also generates send-all statements whose source the checker rejects (unbounded
	// accounts, bare allotments): texts an editor must still navigate
	Unchecked bool
}

func (g *Full) vc() int {
	if g.VarsFree {
		return 0
	}
	return 1
}

var poolType = map[string]string{
	"acc": "account", "acd": "account", "ast": "asset", "num": "number", "nun": "number",
	"mon": "monetary", "mom": "monetary", "por": "portion", "pos": "portion", "str": "string", "xtr": "account",
}

func (g *Full) v(name string) *gen.Var {
	if !g.usedSet[name] {
		g.usedSet[name] = true
		g.used = append(g.used, name)
	}
	return gen.V(name)
}

func (g *Full) pick(costs ...int) int { return g.e.ChooseW(len(costs), costs) }

// expr generates an expression of the given type. Infix chains are left-nested (the only
// shape the grammar can express without parentheses).
func (g *Full) expr(typ string, depth int) gen.Expr {
	switch typ {
	case "account":
		switch g.pick(0, 1, g.vc(), 1) {
		case 0:
			return gen.Acct("a")
		case 1:
			return gen.Acct("world:c-d_1") // an ordinary account: only the exact name `world` is special
		case 2:
			return g.v("acc")
		default:
			return g.v("acd")
		}
	case "asset":
		switch g.pick(0, 1, g.vc()) {
		case 0:
			return gen.Asset("USD")
		case 1:
			return gen.Asset("EUR/2")
		default:
			return g.v("ast")
		}
	case "number":
		if depth > 0 {
			switch g.pick(0, 1, 1, 1, g.vc(), 1, 1) {
			case 0:
				return gen.Num("5")
			case 1:
				return gen.Num("0")
			case 2:
				return gen.Num("-3")
			case 3:
				return gen.Num("007")
			case 4:
				return g.v("num")
			case 5:
				return &gen.Infix{Op: "+", L: g.expr("number", depth-1), R: g.atom("number")}
			default:
				return &gen.Infix{Op: "-", L: g.expr("number", depth-1), R: g.atom("number")}
			}
		}
		return g.atom("number")
	case "monetary":
		if depth > 0 {
			switch g.pick(0, g.vc(), 1, 1) {
			case 0:
				return &gen.MonLit{Asset: g.expr("asset", depth-1), Amt: g.expr("number", depth-1)}
			case 1:
				return g.v("mon")
			case 2:
				return &gen.Infix{Op: "+", L: g.expr("monetary", depth-1), R: g.atom("monetary")}
			default:
				return &gen.Infix{Op: "-", L: g.expr("monetary", depth-1), R: g.atom("monetary")}
			}
		}
		return g.atom("monetary")
	case "portion":
		switch g.pick(0, 1, 1, 1, g.vc(), 1, 1) {
		case 5:
			return gen.Port("1/9223372036854775808") // a 19-digit operand just beyond the machine word
		case 6:
			return gen.Port("2 /3") // a blank on one side of the slash only
		case 0:
			return gen.Port("1/2")
		case 1:
			return gen.Port("50%")
		case 2:
			return gen.Port("12.050%") // fractional part with a leading and a trailing zero
		case 3:
			return gen.Port("1 / 3")
		default:
			return g.v("por")
		}
	case "string":
		switch g.pick(0, 1, 1, 1, g.vc(), 1, 1) {
		case 0:
			return gen.Str("k")
		case 1:
			return gen.Str("héllo // wörld /* €") // comment openers inside a string are text
		case 2:
			return gen.Str("a\\\"b")
		case 3:
			return gen.Str("")
		case 4:
			return g.v("str")
		case 5:
			return gen.Str("say \\\"hi\\\"") // ends with an escaped quote
		default:
			return gen.Str("😀 𐐀 x") // characters outside the basic multilingual plane
		}
	case "any":
		types := []string{"number", "account", "asset", "monetary", "portion", "string"}
		return g.expr(types[g.pick(0, 1, 1, 1, 1, 1)], depth)
	}
	panic("genfull: unknown type " + typ)
}

// atom: a non-infix expression (right operand of an infix chain)
func (g *Full) atom(typ string) gen.Expr {
	switch typ {
	case "number":
		switch g.pick(0, 1, g.vc()) {
		case 0:
			return gen.Num("5")
		case 1:
			return gen.Num("2")
		default:
			return g.v("nun")
		}
	case "monetary":
		switch g.pick(0, g.vc()) {
		case 0:
			return gen.Mon("USD", "5")
		default:
			return g.v("mom")
		}
	}
	return g.expr(typ, 0)
}

var fullSrcVecs = [][]string{
	{"1/2", "1/2"}, {"1/3", "remaining"}, {"50%", "50%"}, {"$por", "remaining"}, {"1/4", "1/4", "remaining"}, {"$por", "$pos"}, {"remaining"}, {"1/2", "50%", "remaining"},
}

func (g *Full) allot(s string) gen.Allot {
	switch {
	case s == "remaining":
		return &gen.Remaining{}
	case s[0] == '$':
		return g.v(s[1:])
	}
	return gen.Port(s)
}

// source: bounded == true restricts to sources that are statically valid under send-all.
func (g *Full) source(depth int, bounded bool) gen.Source {
	if depth <= 0 {
		switch g.pick(0, 1, 1) {
		case 0:
			return &gen.SrcAccount{E: g.expr("account", 0)}
		case 1:
			return &gen.SrcOverdraft{Addr: g.expr("account", 0), Bounded: g.expr("monetary", 1)}
		default:
			if bounded {
				return &gen.SrcAccount{E: gen.Acct("b")}
			}
			return &gen.SrcOverdraft{Addr: g.expr("account", 0)}
		}
	}
	switch g.pick(0, 1, 1, 1, 1, 1, 1) {
	case 0:
		return &gen.SrcAccount{E: g.expr("account", 0)}
	case 1:
		return &gen.SrcOverdraft{Addr: g.expr("account", 0), Bounded: g.expr("monetary", 1)}
	case 2:
		if bounded {
			return &gen.SrcAccount{E: gen.Acct("b")}
		}
		return &gen.SrcOverdraft{Addr: g.expr("account", 0)}
	case 3:
		n := []int{2, 0, 1, 3}[g.pick(0, 1, 1, 1)]
		s := &gen.SrcInorder{}
		for i := 0; i < n; i++ {
			s.Srcs = append(s.Srcs, g.source(depth-1, bounded))
		}
		return s
	case 4:
		return &gen.SrcCapped{Cap: g.expr("monetary", 1), From: g.source(depth-1, false)}
	case 5:
		if bounded {
			// an allotment is valid under send-all only inside a cap
			return &gen.SrcCapped{Cap: g.expr("monetary", 0), From: g.allotSrc(depth - 1)}
		}
		return g.allotSrc(depth - 1)
	default:
		if bounded {
			return &gen.SrcCapped{Cap: g.expr("monetary", 0), From: &gen.SrcAccount{E: gen.Acct("world")}}
		}
		return &gen.SrcAccount{E: gen.Acct("world")}
	}
}

func (g *Full) allotSrc(depth int) gen.Source {
	costs := make([]int, len(fullSrcVecs))
	for i := 1; i < len(costs); i++ {
		costs[i] = 1
	}
	vec := fullSrcVecs[g.e.ChooseW(len(costs), costs)]
	s := &gen.SrcAllot{}
	for _, it := range vec {
		s.Items = append(s.Items, &gen.SrcAllotItem{A: g.allot(it), From: g.source(depth, false)})
	}
	return s
}

func (g *Full) kod(depth int) gen.KoD {
	if g.pick(0, 1) == 1 {
		return &gen.Kept{}
	}
	return &gen.To{D: g.dest(depth)}
}

func (g *Full) dest(depth int) gen.Dest {
	if depth <= 0 {
		return &gen.DstAccount{E: g.expr("account", 0)}
	}
	switch g.pick(0, 1, 1) {
	case 0:
		return &gen.DstAccount{E: g.expr("account", 0)}
	case 1:
		// at least one `max` clause: `{ remaining <kod> }` is (also) an allotment in the grammar
		n := []int{1, 2}[g.pick(0, 1)]
		d := &gen.DstInorder{}
		for i := 0; i < n; i++ {
			d.Clauses = append(d.Clauses, &gen.DstClause{Cap: g.expr("monetary", 1), To: g.kod(depth - 1)})
		}
		d.Remaining = g.kod(depth - 1)
		return d
	default:
		costs := make([]int, len(fullSrcVecs))
		for i := 1; i < len(costs); i++ {
			costs[i] = 1
		}
		vec := fullSrcVecs[g.e.ChooseW(len(costs), costs)]
		d := &gen.DstAllot{}
		for _, it := range vec {
			d.Items = append(d.Items, &gen.DstAllotItem{A: g.allot(it), To: g.kod(depth - 1)})
		}
		return d
	}
}

func (g *Full) stmt() gen.Stmt {
	switch g.pick(0, 1, 1, 1, 1) {
	case 0:
		return &gen.Send{Sent: &gen.SentLit{E: g.expr("monetary", 2)}, Src: g.source(g.Depth, false), Dst: g.dest(g.Depth)}
	case 1:
		return &gen.Send{Sent: &gen.SentAll{Asset: g.expr("asset", 0)}, Src: g.source(g.Depth, !g.Unchecked), Dst: g.dest(g.Depth)}
	case 2:
		if g.pick(0, 1) == 0 {
			return &gen.Save{Sent: &gen.SentLit{E: g.expr("monetary", 1)}, Acct: g.expr("account", 0)}
		}
		return &gen.Save{Sent: &gen.SentAll{Asset: g.expr("asset", 0)}, Acct: g.expr("account", 0)}
	case 3:
		return &gen.Call{Name: "set_tx_meta", Args: []gen.Expr{g.expr("string", 0), g.expr("any", 1)}}
	default:
		return &gen.Call{Name: "set_account_meta", Args: []gen.Expr{g.expr("account", 0), g.expr("string", 0), g.expr("any", 1)}}
	}
}

// Program generates a whole script; declarations for the used variables are added (plain by
// default, with an origin as a costed alternative).
func (g *Full) Program(e *mc.Explorer) *gen.Program {
	g.e = e
	g.used = nil
	g.usedSet = map[string]bool{}
	p := &gen.Program{}
	n := 1
	if g.MaxStmts > 1 {
		costs := make([]int, g.MaxStmts+1)
		for i := range costs {
			costs[i] = 1
		}
		costs[0] = 0
		// 1, 0, 2, 3 ... statements
		order := []int{1, 0}
		for i := 2; i <= g.MaxStmts; i++ {
			order = append(order, i)
		}
		n = order[e.ChooseW(len(order), costs[:len(order)])]
	}
	for i := 0; i < n; i++ {
		p.Stmts = append(p.Stmts, g.stmt())
	}
	used := append([]string{}, g.used...)
	for _, name := range used {
		d := &gen.VarDecl{Type: &gen.TypeName{Name: poolType[name]}, Name: gen.V(name)}
		if e.ChooseW(2, []int{0, 1}) == 1 {
			switch poolType[name] {
			case "monetary":
				if e.Choose(2) == 0 {
					d.Origin = &gen.Call{Name: "balance", Args: []gen.Expr{gen.Acct("a"), gen.Asset("USD")}}
				} else {
					d.Origin = &gen.Call{Name: "overdraft", Args: []gen.Expr{gen.Acct("a"), gen.Asset("USD")}}
				}
			default:
				d.Origin = &gen.Call{Name: "meta", Args: []gen.Expr{gen.Acct("a"), gen.Str(name)}}
			}
		}
		p.Vars = append(p.Vars, d)
	}
	if g.ExtraUnused && e.ChooseW(2, []int{0, 1}) == 1 {
		// a declared-but-never-used variable, first or last in the block
		d := &gen.VarDecl{Type: &gen.TypeName{Name: "account"}, Name: gen.V("xtr")}
		if e.Choose(2) == 0 {
			p.Vars = append([]*gen.VarDecl{d}, p.Vars...)
		} else {
			p.Vars = append(p.Vars, d)
		}
	}
	if len(p.Vars) == 0 && e.ChooseW(2, []int{0, 1}) == 1 {
		p.HasVars = true // an empty vars block
	}
	return p
}
