package props

import (
	"fmt"
	"math/big"

	"github.com/formancehq/numscript/internal/verifmc/env"
	"github.com/formancehq/numscript/internal/verifmc/gen"
	"github.com/formancehq/numscript/internal/verifmc/mc"
	"github.com/formancehq/numscript/internal/verifmc/ref"
)

// runSeqBFS is the explicit-state part of C08/C09: breadth-first search over statement
// histories from every initial sheet, successor = history + one statement, executed IN ONE
// SCRIPT on the real interpreter; states are deduplicated on the canonical visible balance
// vector reached (as computed by the reference semantics, which body checks against the real
// code on every transition). A failed script has no successor.
func runSeqBFS(w *mc.Worker, name, bounds string, ops []op, sheets []env.Bal, maxDepth int, body func(c *seqCase, bal env.Bal)) {
	space := name + "/bfs"
	build := func(path []int) *seqCase {
		c := &seqCase{Prog: &gen.Program{}}
		for _, oi := range path[1:] {
			c.Stmts = append(c.Stmts, ops[oi].Mk())
			c.Names = append(c.Names, ops[oi].Name)
		}
		c.Prog.Stmts = c.Stmts
		c.Text = gen.Text(c.Prog)
		return c
	}
	w.Stage(name, bounds, func() {
		if path, ok := w.ReplayPath(space); ok {
			c := build(path)
			pr, good := parseQuiet(c.Text)
			if !good {
				return
			}
			c.PR = pr
			w.WithPath(space, path, func() { body(c, sheets[path[0]]) })
			return
		}
		if w.IsReplay() {
			return
		}
		for si, sheet := range sheets {
			if !w.Mine(fmt.Sprintf("%s#%d", name, si)) {
				continue
			}
			seen := map[string]bool{balStr(sheet): true}
			frontier := [][]int{{si}}
			var states, transitions int64 = 1, 0
			for depth := 1; depth <= maxDepth && len(frontier) > 0; depth++ {
				var next [][]int
				for _, hist := range frontier {
					if w.Expired() {
						return
					}
					for oi := range ops {
						path := append(append([]int{}, hist...), oi)
						c := build(path)
						pr, good := mustParse(w, c.Text)
						if !good {
							continue
						}
						c.PR = pr
						w.Owned()
						transitions++
						w.WithPath(space, path, func() { body(c, sheet) })
						w.Touch()
						model := ref.Run(c.Prog, ref.Inputs{Bal: sheet})
						if model.Err != "" {
							continue
						}
						k := balStr(nonzero(model.Final))
						if !seen[k] {
							seen[k] = true
							states++
							next = append(next, path)
						}
					}
				}
				frontier = next
			}
			w.AddStates(states, transitions)
			w.Count("bfs-states", states)
			w.Count("bfs-transitions", transitions)
		}
	})
}

func nonzero(b env.Bal) env.Bal {
	out := env.Bal{}
	for a, m := range b {
		for as, v := range m {
			if v.Sign() != 0 {
				if out[a] == nil {
					out[a] = map[string]*big.Int{}
				}
				out[a][as] = v
			}
		}
	}
	return out
}
