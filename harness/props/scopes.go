package props

import (
	"fmt"

	"github.com/formancehq/numscript/internal/analysis"
	"github.com/formancehq/numscript/internal/verifmc/env"
	"github.com/formancehq/numscript/internal/verifmc/gen"
	"github.com/formancehq/numscript/internal/verifmc/mc"
)

// Send-all scoping space (C16, C17): ALL source trees with at most N composite nodes (each of
// `max .. from S`, `{ S S }`, `{ 1/2 from S remaining from S }` costs one) over the leaves @a,
// @a with a bounded overdraft, @b allowing unbounded overdraft, @world — every way a capped scope
// can be entered, nested, left, and followed by a sibling.

// genScopeSource builds one tree; bounded says whether every unbounded leaf and every allotment
// has an enclosing `max` (the static rule for a send-all source).
func genScopeSource(o *mc.Explorer, capped bool, depth int) (gen.Source, bool) {
	costs := []int{0, 0, 0, 0, 1, 1, 1}
	n := len(costs)
	if depth <= 0 {
		n = 4
	}
	switch o.ChooseW(n, costs[:n]) {
	case 0:
		return sa("a"), true
	case 1:
		return over("a", "USD", "2"), true
	case 2:
		return &gen.SrcOverdraft{Addr: gen.Acct("b")}, capped
	case 3:
		return sa("world"), capped
	case 4:
		s, _ := genScopeSource(o, true, depth-1)
		return &gen.SrcCapped{Cap: gen.Mon("USD", "3"), From: s}, true
	case 5:
		s1, ok1 := genScopeSource(o, capped, depth-1)
		s2, ok2 := genScopeSource(o, capped, depth-1)
		return lst(s1, s2), ok1 && ok2
	default:
		s1, ok1 := genScopeSource(o, capped, depth-1)
		s2, ok2 := genScopeSource(o, capped, depth-1)
		return &gen.SrcAllot{Items: []*gen.SrcAllotItem{{A: gen.Port("1/2"), From: s1}, {A: &gen.Remaining{}, From: s2}}}, capped && ok1 && ok2
	}
}

// runScopeSpace: judge(prog, bounded) for every tree, wrapped in `send [USD *] (source = S destination = @x)`.
func runScopeSpace(w *mc.Worker, name string, nodes int, judge func(prog *gen.Program, text string, bounded bool)) {
	w.Stage(name, fmt.Sprintf("send [USD *] from ALL source trees with <= %d composite nodes (max-from, in-order pair, two-item allotment) over the leaves {@a, @a with bounded overdraft, @b allowing unbounded overdraft, @world}", nodes), func() {
		w.Outer(name+"/tree", nodes, func(o *mc.Explorer) {
			src, bounded := genScopeSource(o, false, nodes)
			prog := &gen.Program{Stmts: []gen.Stmt{sendAllS("USD", src, da("x"))}}
			text := gen.Text(prog)
			if !w.Mine(text) {
				return
			}
			w.Owned()
			w.Inner(0, func(in *mc.Explorer) { judge(prog, text, bounded) })
		})
	})
}

// c17ScopeJudge: no diagnostic at all => execution does not fail because of the shape of the source
// (and never with a static-class error when no ERROR was reported).
func c17ScopeJudge(w *mc.Worker, flagsOn map[string]struct{}) func(prog *gen.Program, text string, bounded bool) {
	return func(prog *gen.Program, text string, bounded bool) {
		var res analysis.CheckResult
		if p, _ := guard(func() { res = analysis.CheckSource(text) }); p != "" {
			w.Eval(text, false, "check-panic (C18's subject)")
			return
		}
		if res.GetErrorsCount() > 0 {
			w.Eval(text, false, "check-reports-errors")
			return
		}
		pr, ok := parseQuiet(text)
		if !ok {
			return
		}
		bal := env.Bal{"a": {"USD": bi(5)}, "b": {"USD": bi(5)}}
		out := RunReal(pr, nil, env.New(env.Exact, bal, nil), flagsOn)
		nAll := len(res.Diagnostics)
		w.Eval(text, !bounded || out.Err != nil, fmt.Sprintf("scopes bounded=%v diags=%d run=%s", bounded, nAll, out.Class()))
		if out.Err == nil {
			return
		}
		c := Case{Script: text, Balances: balStr(bal), Observed: out.ErrType + ": " + out.Err.Error(), Extra: map[string]any{"diagnostics": diagSet(res)}}
		switch {
		case isStaticCause(out.ErrType):
			w.Violation("C17.static-failure:"+out.ErrType, "the checker reported no error, yet execution failed with "+out.ErrType, len(text), c)
		case nAll == 0 && causeOf(out.ErrType) == "send-all-shape":
			w.Violation("C17.sendall-shape:"+out.ErrType, "the checker reported nothing at all, yet execution failed because of the shape of a send-all source", len(text), c)
		}
	}
}
