package props

import (
	"fmt"
	"strings"
	"time"

	"github.com/formancehq/numscript/internal/verifmc/env"
	"github.com/formancehq/numscript/internal/verifmc/mc"
	"github.com/formancehq/numscript/internal/verifmc/ref"
)

// C08 `save` reserves funds: later statements cannot move what was saved.

func init() {
	mc.Register(&mc.Property{
		ID:    "C08",
		Title: "save reserves funds",
		Rule: "(a) all statement sequences of length <= L over the statement alphabet (saves of 0/1/2/5/-1/all, sends, send-all, bounded overdraft, money flowing back, second asset) x all initial sheets; (b) breadth-first search over histories to depth D from every initial sheet, deduplicated on the visible balance vector; (c) sequences over the edge-relation alphabet (overdraft bound 0 / negative, saving exactly the balance, world:fees) and over statements sharing variables; " +
			"oracle: every statement after a save posts exactly what the reference semantics posts with the saved account's visible balance lowered by the save rule (never raised, never below zero unless already negative); save emits no posting; negative save rejected; a script that only the saved funds could have paid for (funded without its save statements, unfunded with them) must fail; statements attributed through prefix runs; " +
			"non-trivial = the script contains a save that changed a visible balance and a later send drawing on that account; distinct = script text + sheet",
		Assumptions: []string{"BFS deduplication merges histories with the same visible balance vector; the un-deduplicated levels (a) establish that this vector determines the future"},
		QuickBudget: 240 * time.Second,
		ThoroBudget: 12 * time.Minute,
		Run:         runC08,
	})
}

func sheetList(d *sheetDom) []env.Bal {
	var out []env.Bal
	e := mc.NewExplorer(0)
	for e.Begin() {
		out = append(out, d.pick(e))
	}
	return out
}

func runC08(w *mc.Worker) {
	owns := clausesOf("C08.")
	nontriv := func(m *ref.Result, out *Out) bool {
		if m.Err != "" {
			return m.Err == ref.ENegativeAmount
		}
		saved := false
		for _, s := range m.Stmts {
			if s.Kind == "save" {
				saved = true
			} else if saved && (s.Kind == "send" || s.Kind == "sendall") {
				return true
			}
		}
		return false
	}
	body := func(c *seqCase, bal env.Bal) {
		judgeSeqCase(w, c, nil, bal, owns, nontriv, true)
		// the same case against a store that omits absent / zero entries (no cache entry is
		// created for them): the visible balances, hence the expected result, are the same
		if strings.Contains(c.Text, "save") {
			judgeSeqCaseMode(w, c, nil, bal, owns, nontriv, false, env.Sparse)
		}
	}
	runVarSeqSpace(w, "vars-L2", 2, 2, func(c *seqCase, vars map[string]string, bal env.Bal) {
		if strings.Contains(c.Text, "save") {
			judgeSeqCase(w, c, vars, bal, owns, nontriv, true)
		}
	})
	el := 2
	if w.Tier == "thorough" {
		el = 3
	}
	runEdgeSeqSpace(w, fmt.Sprintf("edge-L%d", el), 2, el, func(c *seqCase, bal env.Bal) {
		if strings.Contains(c.Text, "save") {
			body(c, bal)
		}
	})
	runOriginSeqSpace(w, "origin-L3", 2, 3, []string{"x"}, func(c *seqCase, oc *originCase) {
		if strings.Contains(c.Text, "save") {
			judgeSeqCaseX(w, c, nil, oc, owns, nontriv, true, env.Exact)
		}
	})
	sheetsQ := &sheetDom{A: bigs(0, 1, 3, 6, -2), B: bigs(0, 2, -2), X: bigs(0, 2)}
	sheetsT := &sheetDom{A: append(bigs(0, 1, 3, 6, -2), H), B: bigs(0, 2, -2), X: bigs(0, 2), AEur: bigs(0, 3)}
	seq := func(name, bounds string, minLen, maxLen, budget int, sh *sheetDom) {
		runSeqSpace(w, &seqSpace{Name: name, Bounds: bounds, Ops: coreOps(), MinLen: minLen, MaxLen: maxLen, Budget: budget, Sheets: sh}, body)
	}
	core := coreOps()[:22]
	if w.Tier == "quick" {
		seq("seq-L2", "all sequences of length <= 2 over the 28-statement alphabet (<= 2 deviations) x 30 sheets", 1, 2, 2, sheetsQ)
		seq("seq-L3", "all sequences of length 3 over the 28-statement alphabet (<= 1 deviation) x 30 sheets", 3, 3, 1, sheetsQ)
		runSeqBFS(w, "bfs-D4", "BFS to depth 4 over the 22 core statements from 30 initial sheets, deduplicated on the visible balance vector", core, sheetList(sheetsQ), 4, body)
	} else {
		seq("seq-L3", "all sequences of length <= 3 over the 28-statement alphabet (<= 2 deviations) x 72 sheets (two assets, H)", 1, 3, 2, sheetsT)
		seq("seq-L4", "all sequences of length 4 over the 28-statement alphabet (<= 1 deviation) x 30 sheets", 4, 4, 1, sheetsQ)
		runSeqBFS(w, "bfs-D6", "BFS to depth 6 over the 22 core statements from 30 initial sheets, deduplicated on the visible balance vector", core, sheetList(sheetsQ), 6, body)
	}
}
