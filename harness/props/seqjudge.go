package props

import (
	"fmt"

	"github.com/formancehq/numscript/internal/verifmc/env"
	"github.com/formancehq/numscript/internal/verifmc/mc"
	"github.com/formancehq/numscript/internal/verifmc/ref"
)

// judgeSeqCase: whole-script comparison with the reference semantics plus per-statement
// comparison through prefix attribution.
func judgeSeqCase(w *mc.Worker, c *seqCase, vars map[string]string, bal env.Bal, owns ownsFn, nontriv nontrivFn, attributeStmts bool) {
	judgeSeqCaseMode(w, c, vars, bal, owns, nontriv, attributeStmts, env.Exact)
}

func judgeSeqCaseMode(w *mc.Worker, c *seqCase, vars map[string]string, bal env.Bal, owns ownsFn, nontriv nontrivFn, attributeStmts bool, mode env.Mode) {
	judgeSeqCaseX(w, c, vars, &originCase{Bal: bal}, owns, nontriv, attributeStmts, mode)
}

// judgeSeqCaseX: the same with store metadata and feature flags among the inputs.
func judgeSeqCaseX(w *mc.Worker, c *seqCase, vars map[string]string, oc *originCase, owns ownsFn, nontriv nontrivFn, attributeStmts bool, mode env.Mode) {
	bal := oc.Bal
	st := env.New(mode, bal, oc.Meta)
	out := RunReal(c.PR, vars, st, oc.Flags)
	_, odFlag := oc.Flags["experimental-overdraft-function"]
	in := ref.Inputs{Vars: vars, Bal: bal, Meta: oc.Meta, OverdraftFlag: odFlag}
	model := ref.Run(c.Prog, in)
	fs := judge(c.Prog, in, out, model)
	if out.Err == nil && out.Panic == "" && len(out.Postings) > 0 {
		// the same script on the same store object a second time: the store's content is an input,
		// not a scratch pad (the stores of this harness hand out their own numbers)
		first := len(fs)
		for _, f := range judge(c.Prog, in, RunReal(c.PR, vars, st, oc.Flags), model) {
			fs = append(fs, finding{f.Clause, "second run on the same store object: " + f.Msg})
		}
		if first == 0 && len(fs) > 0 {
			// right the first time, wrong the second: if the script saves, the reservation was written
			// through to the store's own numbers (a save moves nothing and is over when the script is)
			for _, stm := range model.Stmts {
				if stm.Kind == "save" {
					fs = append(fs, finding{"C08.save-outlives-the-script", "the script is executed correctly once, and differently a second time on the same store object: " + fs[0].Msg})
					break
				}
			}
		}
	}
	attributed := false
	if attributeStmts && model.Err == "" && out.Err == nil && out.Panic == "" && len(c.Stmts) > 1 {
		per, ok := attribute(c, vars, oc, out)
		if ok {
			attributed = true
			fs = append(fs, perStatementFindings(c, per, model)...)
		} else {
			w.Count("unattributable", 1)
		}
	}
	key := c.Text + "|" + varsStr(vars) + "|" + balStr(bal) + "|" + fmt.Sprint(oc.Meta) + "|" + mode.String()
	outcome := "model=" + orOK(model.Err) + " real=" + out.Class()
	if model.Err == "" {
		outcome += fmt.Sprintf(" stmts=%d postings=%d attributed=%v", len(c.Stmts), len(out.Postings), attributed)
	}
	nt := nontriv != nil && nontriv(model, out)
	w.Eval(key, nt, outcome)
	mk := func() Case {
		cs := Case{Script: c.Text, Vars: copyVars(vars), Balances: balStr(bal), Meta: oc.Meta, Store: mode.String(), Observed: out.Class() + ": " + postingsStr(out.Postings)}
		if out.Err != nil {
			cs.Observed = out.Class() + ": " + out.Err.Error()
		}
		cs.Expected = "model: " + orOK(model.Err)
		if model.Err == "" {
			mf, _, _ := modelFlows(model)
			cs.Expected += " flows " + flowsStr(mf)
		}
		return cs
	}
	seen := map[string]bool{}
	for _, f := range fs {
		if !owns(f.Clause) {
			w.Count("other-property-clauses:"+f.Clause, 1)
			continue
		}
		sig := f.Clause
		if f.Clause == "C12.panic" {
			sig += "@" + out.Where
		} else {
			sig += ":" + caseFeatures(c.Prog, in, model)
		}
		if seen[sig] {
			continue
		}
		seen[sig] = true
		size := len(c.Text)
		for _, m := range bal {
			for _, v := range m {
				size += v.BitLen()
			}
		}
		w.Violation(sig, f.Msg, size, mk())
	}
	if nt {
		w.Sample(outcome, mk())
	}
}
