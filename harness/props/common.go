// Package props: one file per property — alphabet, bounds per tier, oracle.
package props

import (
	"context"
	"encoding/json"
	"fmt"
	"math/big"
	"sort"
	"strings"

	numscript "github.com/formancehq/numscript"
	"github.com/formancehq/numscript/internal/verifmc/env"
	"github.com/formancehq/numscript/internal/verifmc/mc"
)

var H = func() *big.Int { // 2^64 + 1
	h := new(big.Int).Lsh(big.NewInt(1), 64)
	return h.Add(h, big.NewInt(1))
}()

func bi(n int64) *big.Int { return big.NewInt(n) }

type P struct {
	Src, Dst, Asset string
	Amt             *big.Int
}

func (p P) String() string { return fmt.Sprintf("%s->%s %s %s", p.Src, p.Dst, p.Asset, p.Amt) }

// Out is what one execution of the real interpreter returned.
type Out struct {
	Postings []P
	TxMeta   map[string]string // key -> String() of the value
	TxJSON   map[string]string // key -> JSON encoding of the value
	AcctMeta map[string]map[string]string
	Err      error
	ErrType  string // Go type name of the error without the package, "" if none
	Panic    string
	Where    string
	ResEmpty bool // the returned ExecutionResult is the zero value
}

func (o *Out) Class() string {
	switch {
	case o.Panic != "":
		return "panic"
	case o.Err != nil:
		return o.ErrType
	}
	return "ok"
}

func postingsStr(ps []P) string {
	var sb strings.Builder
	for i, p := range ps {
		if i > 0 {
			sb.WriteString("; ")
		}
		sb.WriteString(p.String())
	}
	return sb.String()
}

// RunReal executes a parsed script on the real interpreter through the public API.
func RunReal(pr numscript.ParseResult, vars map[string]string, st numscript.Store, flags map[string]struct{}) *Out {
	o := &Out{}
	var res numscript.ExecutionResult
	var err numscript.InterpreterError
	o.Panic, o.Where = guard(func() {
		res, err = pr.RunWithFeatureFlags(context.Background(), vars, st, flags)
	})
	if o.Panic != "" {
		return o
	}
	if err != nil {
		o.Err = err
		t := fmt.Sprintf("%T", err)
		if i := strings.LastIndex(t, "."); i >= 0 {
			t = t[i+1:]
		}
		o.ErrType = t
	}
	o.ResEmpty = res.Postings == nil && res.Metadata == nil && res.AccountsMetadata == nil
	for _, p := range res.Postings {
		amt := p.Amount
		if amt == nil {
			amt = new(big.Int)
		}
		o.Postings = append(o.Postings, P{p.Source, p.Destination, p.Asset, new(big.Int).Set(amt)})
	}
	if res.Metadata != nil {
		o.TxMeta = map[string]string{}
		o.TxJSON = map[string]string{}
		for k, v := range res.Metadata {
			o.TxMeta[k] = v.String()
			b, _ := json.Marshal(v)
			o.TxJSON[k] = string(b)
		}
	}
	if res.AccountsMetadata != nil {
		o.AcctMeta = map[string]map[string]string{}
		for a, m := range res.AccountsMetadata {
			o.AcctMeta[a] = map[string]string{}
			for k, v := range m {
				o.AcctMeta[a][k] = v
			}
		}
	}
	return o
}

func guard(f func()) (string, string) {
	p, msg, where := mc.Guard(f)
	if !p {
		return "", ""
	}
	if msg == "" {
		msg = "(empty panic)"
	}
	return msg, where
}

// debits / credits per account for one asset
func debits(ps []P) map[string]*big.Int {
	m := map[string]*big.Int{}
	for _, p := range ps {
		if m[p.Src] == nil {
			m[p.Src] = new(big.Int)
		}
		m[p.Src].Add(m[p.Src], p.Amt)
	}
	return m
}

func credits(ps []P) map[string]*big.Int {
	m := map[string]*big.Int{}
	for _, p := range ps {
		if m[p.Dst] == nil {
			m[p.Dst] = new(big.Int)
		}
		m[p.Dst].Add(m[p.Dst], p.Amt)
	}
	return m
}

func amtMapStr(m map[string]*big.Int) string {
	ks := make([]string, 0, len(m))
	for k, v := range m {
		if v.Sign() != 0 {
			ks = append(ks, k)
		}
	}
	sort.Strings(ks)
	var sb strings.Builder
	for i, k := range ks {
		if i > 0 {
			sb.WriteString(",")
		}
		fmt.Fprintf(&sb, "%s=%s", k, m[k])
	}
	return sb.String()
}

func balStr(b env.Bal) string {
	var parts []string
	for a, m := range b {
		for as, v := range m {
			parts = append(parts, fmt.Sprintf("%s/%s=%s", a, as, v))
		}
	}
	sort.Strings(parts)
	return strings.Join(parts, ",")
}

func varsStr(v map[string]string) string {
	ks := make([]string, 0, len(v))
	for k := range v {
		ks = append(ks, k)
	}
	sort.Strings(ks)
	var parts []string
	for _, k := range ks {
		parts = append(parts, k+"="+v[k])
	}
	return strings.Join(parts, ",")
}

// Case is the human-readable description stored with samples and violations.
type Case struct {
	Script   string            `json:"script"`
	Vars     map[string]string `json:"vars,omitempty"`
	Balances string            `json:"balances,omitempty"`
	Meta     env.Meta          `json:"meta,omitempty"`
	Store    string            `json:"store,omitempty"`
	Extra    map[string]any    `json:"extra,omitempty"`
	Observed string            `json:"observed,omitempty"`
	Expected string            `json:"expected,omitempty"`
}

func bigS(n *big.Int) string {
	if n == nil {
		return "nil"
	}
	if n.BitLen() > 63 {
		// readable rendering of huge numbers
		d := new(big.Int).Sub(n, H)
		if d.IsInt64() {
			if d.Sign() == 0 {
				return "H"
			}
			return fmt.Sprintf("H%+d", d.Int64())
		}
	}
	return n.String()
}

// mustParse parses a generated (valid by construction) script; a parse error here is a
// harness/generator problem or a C14/C15 subject, never silently ignored.
func mustParse(w *mc.Worker, text string) (numscript.ParseResult, bool) {
	var pr numscript.ParseResult
	pmsg, _ := guard(func() { pr = numscript.Parse(text) })
	if pmsg != "" || len(pr.GetParsingErrors()) != 0 {
		w.Count("harness_errors", 1)
		if len(w.Rep.Notes) < 5 {
			w.Rep.Notes = append(w.Rep.Notes, "generated script did not parse cleanly: "+text+" panic="+pmsg)
		}
		return pr, false
	}
	return pr, true
}

type parsedT = numscript.ParseResult

func numscriptParse(text string) parsedT { return numscript.Parse(text) }

// pow2Dom: numbers around the 63- and 64-bit boundaries (exact powers of two included, so that
// code which looks at the low machine word only is exposed), ordered simplest-first.
func pow2Dom() []*big.Int {
	p63 := new(big.Int).Lsh(big.NewInt(1), 63)
	p64 := new(big.Int).Lsh(big.NewInt(1), 64)
	p65 := new(big.Int).Lsh(big.NewInt(1), 65)
	return []*big.Int{big.NewInt(0), big.NewInt(1), new(big.Int).Sub(p63, big.NewInt(1)), p63, new(big.Int).Sub(p64, big.NewInt(1)), p64, new(big.Int).Add(p64, big.NewInt(1)), p65}
}
