package props

import (
	"fmt"
	"math/big"
	"strings"
	"time"

	"github.com/formancehq/numscript/internal/verifmc/env"
	"github.com/formancehq/numscript/internal/verifmc/gen"
	"github.com/formancehq/numscript/internal/verifmc/mc"
	"github.com/formancehq/numscript/internal/verifmc/ref"
)

// C06 Allotments split exactly: floor shares, leftover units leftmost, nothing lost.
//
// Space: single-allotment scripts. Destination side: `send $m (source = @world destination =
// {P0 to @d0 P1 to @d1 ...})`; source side: `send $m (source = {P0 from @s0 allowing unbounded
// overdraft ...} destination = @x)`. Portions: every text k/d (0<=k<=d<=D), optionally written
// as a percentage (when the decimal expansion is finite and short) or as a portion variable,
// with `remaining` in any single position; vectors that sum to one AND all that do not.
// Totals: 0..T and the huge numbers. The oracle is the statement itself, evaluated with
// independent big-rational arithmetic.

func init() {
	mc.Register(&mc.Property{
		ID:    "C06",
		Title: "Allotments split exactly",
		Rule: "all portion vectors (length 2..L, entries k/d with d<=D written as ratio / exact percentage / portion variable, optional `remaining` in any one position, sum == 1 and sum != 1) x totals {0..T, H, H+1, 10^30, 2^128-1} x {source side, destination side}; " +
			"non-trivial = accepted split of a total > 0 with at least two non-zero shares, or a rejected vector (sum != 1 without remaining); distinct = script text + total",
		Assumptions: []string{
			"shares are observed as credits of distinct accounts fed from @world (destination side) and as debits of distinct accounts allowing unbounded overdraft (source side)",
			"whether portion vectors whose other clauses exceed one together with `remaining` are rejected is not specified; when such a split is accepted its shares are still held to the statement (no negative share, explicit portions get floor or floor+1, shares add up to the total)",
		},
		QuickBudget: 240 * time.Second,
		ThoroBudget: 12 * time.Minute,
		Run:         runC06,
	})
}

type c06Entry struct {
	k, d int // portion k/d; d == 0 marks `remaining`
	form int // 0 ratio, 1 percentage, 2 variable
}

func pctText(k, d int) (string, bool) {
	// exact percentage text of k/d with at most 3 decimals, else false
	num := big.NewInt(int64(k) * 100000)
	den := big.NewInt(int64(d))
	q, r := new(big.Int).QuoRem(num, den, new(big.Int))
	if r.Sign() != 0 {
		return "", false
	}
	// q = percentage * 1000
	ip := new(big.Int).Quo(q, big.NewInt(1000))
	fp := new(big.Int).Rem(q, big.NewInt(1000)).Int64()
	if fp == 0 {
		return ip.String() + "%", true
	}
	frac := strings.TrimRight(fmt.Sprintf("%03d", fp), "0")
	return ip.String() + "." + frac + "%", true
}

func c06Totals(tier string) []*big.Int {
	T := 24
	if tier == "thorough" {
		T = 60
	}
	var ts []*big.Int
	for i := 0; i <= T; i++ {
		ts = append(ts, bi(int64(i)))
	}
	h1 := new(big.Int).Add(H, bi(1))
	e30 := new(big.Int).Exp(bi(10), bi(30), nil)
	p128 := new(big.Int).Sub(new(big.Int).Lsh(bi(1), 128), bi(1))
	p62 := new(big.Int).Lsh(bi(1), 62)
	ts = append(ts, new(big.Int).Set(H), h1, e30, p128,
		// amount x numerator lands in [2^63, 2^64): word-sized fast paths overflow here
		new(big.Int).Sub(p62, bi(1)), p62, bi(4000000000000000000), new(big.Int).Sub(new(big.Int).Lsh(bi(1), 63), bi(1)), new(big.Int).Lsh(bi(1), 63), new(big.Int).Lsh(bi(1), 61))
	return ts
}

func runC06(w *mc.Worker) {
	type bound struct {
		name      string
		L, D, fb  int
		remaining bool
	}
	var stages []bound
	if w.Tier == "quick" {
		stages = []bound{{"L2-D8", 2, 8, 2, true}, {"L3-D6", 3, 6, 1, true}, {"L4-D3", 4, 3, 0, true}}
	} else {
		stages = []bound{{"L2-D16", 2, 16, 2, true}, {"L3-D10", 3, 10, 2, true}, {"L4-D5", 4, 5, 1, true}}
	}
	totals := c06Totals(w.Tier)
	c06Corner(w)
	c06Spellings(w, append(c06Totals("quick")[:0:0], append(c06Totals("quick"), big.NewInt(10000), big.NewInt(99999))...))
	for _, b := range stages {
		b := b
		w.Stage(b.name, fmt.Sprintf("vectors of length %d, denominators <= %d, <= %d non-ratio spellings, totals %d values", b.L, b.D, b.fb, len(totals)), func() {
			w.Outer(b.name+"/alloc", b.fb, func(o *mc.Explorer) {
				side := o.Choose(2) // 0 destination, 1 source
				n := b.L
				entries := make([]c06Entry, n)
				remAt := o.Choose(n+1) - 1 // -1: none
				for i := 0; i < n; i++ {
					if i == remAt {
						continue
					}
					d := 1 + o.Choose(b.D)
					k := o.Choose(d + 1)
					form := o.ChooseW(3, []int{0, 1, 1})
					entries[i] = c06Entry{k, d, form}
				}
				// build the script
				prog := &gen.Program{}
				vars := map[string]string{}
				prog.Vars = append(prog.Vars, &gen.VarDecl{Type: &gen.TypeName{Name: "monetary"}, Name: gen.V("m")})
				allots := make([]gen.Allot, n)
				portions := make([]*big.Rat, n)
				for i, e := range entries {
					if i == remAt {
						allots[i] = &gen.Remaining{}
						continue
					}
					portions[i] = big.NewRat(int64(e.k), int64(e.d))
					txt := fmt.Sprintf("%d/%d", e.k, e.d)
					switch e.form {
					case 0:
						allots[i] = gen.Port(txt)
					case 1:
						pt, ok := pctText(e.k, e.d)
						if !ok {
							return // this spelling does not exist for k/d: not a case
						}
						allots[i] = gen.Port(pt)
					case 2:
						name := fmt.Sprintf("p%d", i)
						prog.Vars = append(prog.Vars, &gen.VarDecl{Type: &gen.TypeName{Name: "portion"}, Name: gen.V(name)})
						vars[name] = txt
						allots[i] = gen.V(name)
					}
				}
				accts := make([]string, n)
				if side == 0 {
					d := &gen.DstAllot{}
					for i := range entries {
						accts[i] = fmt.Sprintf("d%d", i)
						d.Items = append(d.Items, &gen.DstAllotItem{A: allots[i], To: &gen.To{D: &gen.DstAccount{E: gen.Acct(accts[i])}}})
					}
					prog.Stmts = []gen.Stmt{&gen.Send{Sent: &gen.SentLit{E: gen.V("m")}, Src: &gen.SrcAccount{E: gen.Acct("world")}, Dst: d}}
				} else {
					s := &gen.SrcAllot{}
					for i := range entries {
						accts[i] = fmt.Sprintf("s%d", i)
						s.Items = append(s.Items, &gen.SrcAllotItem{A: allots[i], From: &gen.SrcOverdraft{Addr: gen.Acct(accts[i])}})
					}
					prog.Stmts = []gen.Stmt{&gen.Send{Sent: &gen.SentLit{E: gen.V("m")}, Src: s, Dst: &gen.DstAccount{E: gen.Acct("x")}}}
				}
				text := gen.Text(prog)
				if !w.Mine(text) {
					return
				}
				w.Owned()
				pr, ok := mustParse(w, text)
				if !ok {
					return
				}
				w.Inner(0, func(in *mc.Explorer) {
					total := totals[in.Choose(len(totals))]
					vars["m"] = "COIN " + total.String()
					st := env.New(env.Exact, nil, nil)
					out := RunReal(pr, vars, st, nil)
					want, kind := ref.Allot(total, portions)
					c := func() Case {
						return Case{Script: text, Vars: copyVars(vars), Observed: out.Class() + " " + postingsStr(out.Postings)}
					}
					key := text + "|" + total.String()
					if kind == ref.EUnspecified {
						// the other portions exceed one next to `remaining`: whether this is rejected is
						// not specified, but a SUCCESSFUL split is still bound by the letter of the
						// statement: no negative share, explicit portions get floor or floor+1, shares add up
						w.Eval(key, out.Err == nil && out.Panic == "", "over-one-with-remaining:"+out.Class())
						if out.Panic != "" {
							w.Violation("panic@"+out.Where, "allotment execution panicked: "+out.Panic, len(text), c())
							return
						}
						if out.Err != nil {
							return
						}
						got := credits(out.Postings)
						if side == 1 {
							got = debits(out.Postings)
						}
						sum := new(big.Int)
						bad := ""
						for i := range entries {
							g := got[accts[i]]
							if g == nil {
								g = new(big.Int)
							}
							sum.Add(sum, g)
							if g.Sign() < 0 && bad == "" {
								bad = fmt.Sprintf("clause %d got the negative share %s", i, g)
							}
							if portions[i] != nil && bad == "" {
								prod := new(big.Rat).Mul(portions[i], new(big.Rat).SetInt(total))
								fl := new(big.Int).Div(prod.Num(), prod.Denom())
								if d := new(big.Int).Sub(g, fl); d.Sign() < 0 || d.Cmp(bi(1)) > 0 {
									bad = fmt.Sprintf("clause %d got %s, the floor of its portion of the total is %s", i, g, fl)
								}
							}
						}
						if bad == "" && sum.Cmp(total) != 0 {
							bad = fmt.Sprintf("shares add up to %s, total is %s", sum, total)
						}
						if bad != "" {
							w.Violation("over-one-accepted-with-wrong-shares", "portions exceeding one next to `remaining` were accepted and split wrongly: "+bad, len(text)+total.BitLen(), c())
						}
						return
					}
					if out.Panic != "" {
						w.Eval(key, true, "panic")
						w.Violation("panic@"+out.Where, "allotment execution panicked: "+out.Panic, len(text), c())
						return
					}
					if kind == ref.EAllotmentSum {
						w.Eval(key, true, "rejected-sum:"+out.Class())
						if out.ErrType != ref.EAllotmentSum {
							w.Violation("bad-sum-not-rejected:"+out.Class(), "portions do not add up to one (no `remaining`) but the result was "+out.Class(), len(text), c())
						}
						w.Sample("rejected", c())
						return
					}
					if out.Err != nil {
						w.Eval(key, true, "spurious-error:"+out.ErrType)
						w.Violation("valid-split-failed:"+out.ErrType, "a valid allotment failed: "+out.Err.Error(), len(text), c())
						return
					}
					// observed shares
					var got map[string]*big.Int
					if side == 0 {
						got = credits(out.Postings)
					} else {
						got = debits(out.Postings)
					}
					nonzero := 0
					sum := new(big.Int)
					bad := ""
					seenSmaller := false
					for i := range entries {
						g := got[accts[i]]
						if g == nil {
							g = new(big.Int)
						}
						sum.Add(sum, g)
						if g.Sign() != 0 {
							nonzero++
						}
						// statement clauses, checked independently of ref.Allot
						p := portions[i]
						if p == nil {
							p = big.NewRat(1, 1)
							for j, q := range portions {
								if j != i && q != nil {
									p = new(big.Rat).Sub(p, q)
								}
							}
						}
						prod := new(big.Rat).Mul(p, new(big.Rat).SetInt(total))
						fl := new(big.Int).Div(prod.Num(), prod.Denom())
						diff := new(big.Int).Sub(g, fl)
						switch {
						case diff.Sign() == 0:
							seenSmaller = true
						case diff.Cmp(bi(1)) == 0:
							if seenSmaller {
								bad = fmt.Sprintf("clause %d got a leftover unit after an earlier clause got none", i)
							}
						default:
							bad = fmt.Sprintf("clause %d got %s, floor share is %s", i, g, fl)
						}
						if g.Cmp(want[i]) != 0 && bad == "" {
							bad = fmt.Sprintf("clause %d got %s, expected %s", i, g, want[i])
						}
					}
					if sum.Cmp(total) != 0 && bad == "" {
						bad = fmt.Sprintf("shares add up to %s, total is %s", sum, total)
					}
					for a := range got {
						known := a == "world" || a == "x"
						for _, x := range accts {
							if x == a {
								known = true
							}
						}
						if !known {
							bad = "unexpected account " + a
						}
					}
					nontrivial := total.Sign() > 0 && nonzero >= 2
					w.Eval(key, nontrivial, fmt.Sprintf("split:nonzero=%d", nonzero))
					if bad != "" {
						cc := c()
						ws := make([]string, len(want))
						for i := range want {
							ws[i] = want[i].String()
						}
						cc.Expected = "shares " + strings.Join(ws, ",")
						shape := "dst"
						if side == 1 {
							shape = "src"
						}
						w.Violation("wrong-split:"+shape, bad, len(text)+total.BitLen(), cc)
					}
					if nontrivial {
						w.Sample(fmt.Sprintf("split-%d-%d", side, nonzero), c())
					}
				})
			})
		})
	}
}

// c06Spellings: portions written with unusual but grammatical spellings (leading zeros,
// trailing fractional zeros, spaces), split against `remaining`, both sides.
func c06Spellings(w *mc.Worker, totals []*big.Int) {
	texts := []string{"0.25%", "0.10%", "01.5%", "0.017%", "50.0%", "2.50%", "025%", "007%", "1/04", "010/020", "1 / 8", "00.5%", "100.00%", "0.0%", "09%", "1/010", "0.00000000000000001%", "1/9223372036854775808", "1/10000000000000000000", "9223372036854775807/9223372036854775808"}
	w.Stage("spellings", fmt.Sprintf("%d unusual portion spellings (leading zeros, trailing fractional zeros, spaces) x {literal, variable} x {source, destination} x totals", len(texts)), func() {
		w.Outer("spellings/text", 0, func(o *mc.Explorer) {
			txt := texts[o.Choose(len(texts))]
			side := o.Choose(2)
			asVar := o.Choose(2) == 1
			prog := &gen.Program{Vars: []*gen.VarDecl{{Type: &gen.TypeName{Name: "monetary"}, Name: gen.V("m")}}}
			vars := map[string]string{}
			var a gen.Allot = gen.Port(txt)
			if asVar {
				prog.Vars = append(prog.Vars, &gen.VarDecl{Type: &gen.TypeName{Name: "portion"}, Name: gen.V("p")})
				vars["p"] = txt
				a = gen.V("p")
			}
			if side == 0 {
				prog.Stmts = []gen.Stmt{&gen.Send{Sent: &gen.SentLit{E: gen.V("m")}, Src: &gen.SrcAccount{E: gen.Acct("world")}, Dst: &gen.DstAllot{Items: []*gen.DstAllotItem{
					{A: a, To: &gen.To{D: &gen.DstAccount{E: gen.Acct("d0")}}}, {A: &gen.Remaining{}, To: &gen.To{D: &gen.DstAccount{E: gen.Acct("d1")}}}}}}}
			} else {
				prog.Stmts = []gen.Stmt{&gen.Send{Sent: &gen.SentLit{E: gen.V("m")}, Src: &gen.SrcAllot{Items: []*gen.SrcAllotItem{
					{A: a, From: &gen.SrcOverdraft{Addr: gen.Acct("s0")}}, {A: &gen.Remaining{}, From: &gen.SrcOverdraft{Addr: gen.Acct("s1")}}}}, Dst: &gen.DstAccount{E: gen.Acct("x")}}}
			}
			text := gen.Text(prog)
			if !w.Mine(text) {
				return
			}
			w.Owned()
			var pr parsedT
			pmsg, where := guard(func() { pr = numscriptParse(text) })
			if pmsg != "" || len(pr.GetParsingErrors()) != 0 {
				w.Inner(0, func(in *mc.Explorer) {
					w.Eval(text, true, "spelling:unparsable")
					w.Violation("C06.spelling-rejected:parse@"+where, "a script with a valid portion spelling did not parse (panic: "+pmsg+")", len(text), Case{Script: text})
				})
				return
			}
			p := ref.PortionOfText(txt)
			w.Inner(0, func(in *mc.Explorer) {
				total := totals[in.Choose(len(totals))]
				vars["m"] = "COIN " + total.String()
				out := RunReal(pr, vars, env.New(env.Exact, nil, nil), nil)
				want, _ := ref.Allot(total, []*big.Rat{p, nil})
				key := text + "|" + total.String()
				c := Case{Script: text, Vars: copyVars(vars), Observed: out.Class() + " " + postingsStr(out.Postings), Expected: fmt.Sprintf("shares %s, %s", want[0], want[1])}
				if out.Err != nil || out.Panic != "" {
					w.Eval(key, true, "spelling:"+out.Class())
					w.Violation("C06.spelling-rejected:"+out.Class(), "a valid portion spelling was not accepted: "+out.Class(), len(text), c)
					return
				}
				got := credits(out.Postings)
				names := []string{"d0", "d1"}
				if side == 1 {
					got = debits(out.Postings)
					names = []string{"s0", "s1"}
				}
				w.Eval(key, total.Sign() > 0, "spelling:ok")
				for i, n := range names {
					g := got[n]
					if g == nil {
						g = new(big.Int)
					}
					if g.Cmp(want[i]) != 0 {
						w.Violation("C06.spelling-value", fmt.Sprintf("portion %q of %s: clause %d got %s, expected %s", txt, total, i, g, want[i]), len(text)+total.BitLen(), c)
						break
					}
				}
				if total.Sign() > 0 {
					w.Sample("spelling", c)
				}
			})
		})
	})
}

// c06Corner: (1) two `remaining` clauses: no split can give both of them "one minus the
// others" unless that is zero, so such an allotment must be rejected; (2) an allotment whose
// portions do not add up to one must be rejected even when the branch it sits in receives
// nothing (behind a cap that takes everything, or under a 0% share).
func c06Corner(w *mc.Worker) {
	mk := func(side int, allots []gen.Allot) *gen.Program {
		prog := &gen.Program{Vars: []*gen.VarDecl{{Type: &gen.TypeName{Name: "monetary"}, Name: gen.V("m")}}}
		if side == 0 {
			d := &gen.DstAllot{}
			for i, a := range allots {
				d.Items = append(d.Items, &gen.DstAllotItem{A: a, To: &gen.To{D: &gen.DstAccount{E: gen.Acct(fmt.Sprintf("d%d", i))}}})
			}
			prog.Stmts = []gen.Stmt{&gen.Send{Sent: &gen.SentLit{E: gen.V("m")}, Src: &gen.SrcAccount{E: gen.Acct("world")}, Dst: d}}
		} else {
			sa := &gen.SrcAllot{}
			for i, a := range allots {
				sa.Items = append(sa.Items, &gen.SrcAllotItem{A: a, From: &gen.SrcOverdraft{Addr: gen.Acct(fmt.Sprintf("s%d", i))}})
			}
			prog.Stmts = []gen.Stmt{&gen.Send{Sent: &gen.SentLit{E: gen.V("m")}, Src: sa, Dst: &gen.DstAccount{E: gen.Acct("x")}}}
		}
		return prog
	}
	run := func(text string, total int64) *Out {
		pr, ok := parseQuiet(text)
		if !ok {
			return &Out{Panic: "unparsable"}
		}
		return RunReal(pr, map[string]string{"m": fmt.Sprintf("COIN %d", total)}, env.New(env.Exact, nil, nil), nil)
	}
	w.Stage("two-remaining", "allotments of 3 clauses with two `remaining` and one portion k/d (d <= 4, k < d), every position, both sides, totals 0..6", func() {
		w.Outer("two-remaining/vec", 0, func(o *mc.Explorer) {
			side := o.Choose(2)
			pos := o.Choose(3) // position of the portion clause
			d := 1 + o.Choose(4)
			k := o.Choose(d) // k < d: the others leave something for `remaining`
			var as []gen.Allot
			for i := 0; i < 3; i++ {
				if i == pos {
					as = append(as, gen.Port(fmt.Sprintf("%d/%d", k, d)))
				} else {
					as = append(as, &gen.Remaining{})
				}
			}
			text := gen.Text(mk(side, as))
			if !w.Mine(text) {
				return
			}
			w.Owned()
			w.Inner(0, func(in *mc.Explorer) {
				total := int64(in.Choose(7))
				out := run(text, total)
				w.Eval(fmt.Sprint(text, total), true, "two-remaining:"+out.Class())
				if out.Err == nil && out.Panic == "" {
					w.Violation("C06.two-remaining-accepted", "an allotment with two `remaining` clauses (each would stand for one minus the others) was accepted", len(text), Case{Script: text, Vars: map[string]string{"m": fmt.Sprintf("COIN %d", total)}, Observed: postingsStr(out.Postings)})
				}
				w.Sample("two-remaining", Case{Script: text, Observed: out.Class()})
			})
		})
	})
	w.Stage("unreached-bad-sum", "a destination allotment whose portions do not add up to one, placed where nothing reaches it (after a cap that takes everything, under a 0% share, in a later clause), totals 0..12", func() {
		bad := [][]string{{"1/2", "1/4"}, {"1/2", "2/3"}, {"1/3"}, {"$p", "1/2"}}
		w.Outer("unreached-bad-sum/shape", 0, func(o *mc.Explorer) {
			v := bad[o.Choose(len(bad))]
			shape := o.Choose(3)
			inner := &gen.DstAllot{}
			for i, t := range v {
				inner.Items = append(inner.Items, &gen.DstAllotItem{A: allotOf(t), To: &gen.To{D: &gen.DstAccount{E: gen.Acct(fmt.Sprintf("n%d", i))}}})
			}
			var dst gen.Dest
			switch shape {
			case 0: // { max 10 to @a remaining to {bad} }
				dst = &gen.DstInorder{Clauses: []*gen.DstClause{{Cap: gen.Mon("COIN", "10"), To: &gen.To{D: &gen.DstAccount{E: gen.Acct("a")}}}}, Remaining: &gen.To{D: inner}}
			case 1: // { max 10 to @a max 5 to {bad} remaining to @b }
				dst = &gen.DstInorder{Clauses: []*gen.DstClause{{Cap: gen.Mon("COIN", "10"), To: &gen.To{D: &gen.DstAccount{E: gen.Acct("a")}}}, {Cap: gen.Mon("COIN", "5"), To: &gen.To{D: inner}}}, Remaining: &gen.To{D: &gen.DstAccount{E: gen.Acct("b")}}}
			default: // { 0% to {bad} remaining to @b }
				dst = &gen.DstAllot{Items: []*gen.DstAllotItem{{A: gen.Port("0%"), To: &gen.To{D: inner}}, {A: &gen.Remaining{}, To: &gen.To{D: &gen.DstAccount{E: gen.Acct("b")}}}}}
			}
			prog := &gen.Program{Vars: []*gen.VarDecl{{Type: &gen.TypeName{Name: "monetary"}, Name: gen.V("m")}},
				Stmts: []gen.Stmt{&gen.Send{Sent: &gen.SentLit{E: gen.V("m")}, Src: &gen.SrcAccount{E: gen.Acct("world")}, Dst: dst}}}
			vars := map[string]string{}
			for _, n := range usedVars(prog) {
				if n == "p" {
					prog.Vars = append(prog.Vars, &gen.VarDecl{Type: &gen.TypeName{Name: "portion"}, Name: gen.V("p")})
					vars["p"] = "1/4"
				}
			}
			text := gen.Text(prog)
			if !w.Mine(text) {
				return
			}
			w.Owned()
			pr, ok := mustParse(w, text)
			if !ok {
				return
			}
			w.Inner(0, func(in *mc.Explorer) {
				total := int64(in.Choose(13))
				vars["m"] = fmt.Sprintf("COIN %d", total)
				out := RunReal(pr, vars, env.New(env.Exact, nil, nil), nil)
				w.Eval(fmt.Sprint(text, total), true, "unreached-bad-sum:"+out.Class())
				if out.Panic == "" && out.ErrType != ref.EAllotmentSum {
					w.Violation("C06.bad-sum-not-rejected:unreached:"+out.Class(), "portions that do not add up to one were not rejected (the allotment sits where nothing reaches it)", len(text), Case{Script: text, Vars: copyVars(vars), Observed: out.Class() + " " + postingsStr(out.Postings)})
				}
			})
		})
	})
	// the same on the source side: an ill-formed source allotment listed after sources that already
	// cover the amount (or under a cap of zero, or with nothing to send)
	w.Stage("unreached-bad-sum-source", "a source allotment whose portions do not add up to one, placed where nothing is asked of it (after @world / after an account that covers the amount, under max 0, amount 0), totals 0..12", func() {
		bad := [][]string{{"1/2", "1/4"}, {"1/2", "2/3"}, {"1/3"}, {"$p", "1/2"}}
		w.Outer("unreached-bad-sum-source/shape", 0, func(o *mc.Explorer) {
			v := bad[o.Choose(len(bad))]
			shape := o.Choose(4)
			inner := &gen.SrcAllot{}
			for i, t := range v {
				inner.Items = append(inner.Items, &gen.SrcAllotItem{A: allotOf(t), From: &gen.SrcOverdraft{Addr: gen.Acct(fmt.Sprintf("n%d", i))}})
			}
			var src gen.Source
			switch shape {
			case 0: // { @world {bad} }
				src = lst(sa("world"), inner)
			case 1: // { @rich {bad} }   (rich holds 100)
				src = lst(sa("rich"), inner)
			case 2: // { max 0 from {bad} @world }
				src = lst(&gen.SrcCapped{Cap: gen.Mon("COIN", "0"), From: inner}, sa("world"))
			default: // { @rich max 5 from {bad} @world }
				src = lst(sa("rich"), &gen.SrcCapped{Cap: gen.Mon("COIN", "5"), From: inner}, sa("world"))
			}
			prog := &gen.Program{Vars: []*gen.VarDecl{{Type: &gen.TypeName{Name: "monetary"}, Name: gen.V("m")}},
				Stmts: []gen.Stmt{&gen.Send{Sent: &gen.SentLit{E: gen.V("m")}, Src: src, Dst: &gen.DstAccount{E: gen.Acct("x")}}}}
			vars := map[string]string{}
			for _, n := range usedVars(prog) {
				if n == "p" {
					prog.Vars = append(prog.Vars, &gen.VarDecl{Type: &gen.TypeName{Name: "portion"}, Name: gen.V("p")})
					vars["p"] = "1/4"
				}
			}
			text := gen.Text(prog)
			if !w.Mine(text) {
				return
			}
			w.Owned()
			pr, ok := mustParse(w, text)
			if !ok {
				return
			}
			w.Inner(0, func(in *mc.Explorer) {
				total := int64(in.Choose(13))
				vars["m"] = fmt.Sprintf("COIN %d", total)
				out := RunReal(pr, vars, env.New(env.Exact, env.Bal{"rich": {"COIN": bi(100)}}, nil), nil)
				w.Eval(fmt.Sprint(text, total), true, "unreached-bad-sum-source:"+out.Class())
				if out.Panic == "" && out.ErrType != ref.EAllotmentSum {
					w.Violation("C06.bad-sum-not-rejected:unreached-source:"+out.Class(), "portions that do not add up to one were not rejected (the source allotment sits where nothing is asked of it)", len(text), Case{Script: text, Vars: copyVars(vars), Observed: out.Class() + " " + postingsStr(out.Postings)})
				}
			})
		})
	})
}

func copyVars(v map[string]string) map[string]string {
	o := map[string]string{}
	for k, x := range v {
		o[k] = x
	}
	return o
}
