package props

import (
	"github.com/formancehq/numscript/internal/verifmc/gen"
	"github.com/formancehq/numscript/internal/verifmc/mc"
)

// Weighted string alternative: W is the budget cost of choosing it (the first alternative of
// every list must cost 0).
type WS struct {
	S string
	W int
}

func ws(w int, ss ...string) []WS {
	out := make([]WS, len(ss))
	for i, s := range ss {
		out[i] = WS{s, w}
	}
	return out
}

func cat(xs ...[]WS) []WS {
	var out []WS
	for _, x := range xs {
		out = append(out, x...)
	}
	return out
}

func pickWS(e *mc.Explorer, xs []WS) string {
	costs := make([]int, len(xs))
	free := true
	for i, x := range xs {
		costs[i] = x.W
		if x.W != 0 {
			free = false
		}
	}
	if free {
		return xs[e.Choose(len(xs))].S
	}
	return xs[e.ChooseW(len(xs), costs)].S
}

// PortVec is a portion vector for an allotment; entries are portion texts, "remaining" or "$name".
type PortVec struct {
	Items []string
	W     int
}

type SrcCfg struct {
	Asset     string
	Accts     []WS // plain account literals
	VarAccts  []WS // variable names used as accounts
	Grants    []WS // bounded overdraft amounts (literal numbers)
	GrantAcct []WS // accounts that may carry an overdraft clause
	Unbounded bool
	Caps      []WS
	Vecs      []PortVec
	ListLens  []WS // e.g. {"2",0},{"1",1},{"3",1},{"0",1}
	// node kind costs; a negative cost disables the kind
	WOverdraft, WUnbounded, WVar, WInorder, WCapped, WAllot int
}

func atoi(s string) int {
	n := 0
	for _, c := range s {
		n = n*10 + int(c-'0')
	}
	return n
}

func allotOf(s string) gen.Allot {
	switch {
	case s == "remaining":
		return &gen.Remaining{}
	case len(s) > 0 && s[0] == '$':
		return gen.V(s[1:])
	}
	return gen.Port(s)
}

func mon(asset, amt string) gen.Expr {
	if len(amt) > 0 && amt[0] == '$' {
		return gen.V(amt[1:])
	}
	return gen.Mon(asset, amt)
}

func acctExpr(s string) gen.Expr {
	if len(s) > 0 && s[0] == '$' {
		return gen.V(s[1:])
	}
	return gen.Acct(s)
}

// GenSource enumerates source trees; depth bounds nesting of composite nodes.
func GenSource(e *mc.Explorer, c *SrcCfg, depth int) gen.Source {
	const (
		kAcct = iota
		kOver
		kUnb
		kVar
		kInorder
		kCapped
		kAllot
	)
	kinds := []int{kAcct}
	costs := []int{0}
	add := func(k, w int, ok bool) {
		if ok && w >= 0 {
			kinds = append(kinds, k)
			costs = append(costs, w)
		}
	}
	add(kOver, c.WOverdraft, len(c.Grants) > 0 && len(c.GrantAcct) > 0)
	add(kUnb, c.WUnbounded, c.Unbounded && len(c.GrantAcct) > 0)
	add(kVar, c.WVar, len(c.VarAccts) > 0)
	if depth > 0 {
		add(kInorder, c.WInorder, len(c.ListLens) > 0)
		add(kCapped, c.WCapped, len(c.Caps) > 0)
		add(kAllot, c.WAllot, len(c.Vecs) > 0)
	}
	k := kinds[0]
	if len(kinds) > 1 {
		k = kinds[e.ChooseW(len(kinds), costs)]
	}
	switch k {
	case kAcct:
		return &gen.SrcAccount{E: acctExpr(pickWS(e, c.Accts))}
	case kOver:
		a := pickWS(e, c.GrantAcct)
		g := pickWS(e, c.Grants)
		return &gen.SrcOverdraft{Addr: acctExpr(a), Bounded: mon(c.Asset, g)}
	case kUnb:
		a := pickWS(e, c.GrantAcct)
		return &gen.SrcOverdraft{Addr: acctExpr(a)}
	case kVar:
		return &gen.SrcAccount{E: acctExpr(pickWS(e, c.VarAccts))}
	case kInorder:
		n := atoi(pickWS(e, c.ListLens))
		s := &gen.SrcInorder{}
		for i := 0; i < n; i++ {
			s.Srcs = append(s.Srcs, GenSource(e, c, depth-1))
		}
		return s
	case kCapped:
		capv := pickWS(e, c.Caps)
		return &gen.SrcCapped{Cap: mon(c.Asset, capv), From: GenSource(e, c, depth-1)}
	case kAllot:
		costs := make([]int, len(c.Vecs))
		for i, v := range c.Vecs {
			costs[i] = v.W
		}
		v := c.Vecs[e.ChooseW(len(c.Vecs), costs)]
		s := &gen.SrcAllot{}
		for _, it := range v.Items {
			s.Items = append(s.Items, &gen.SrcAllotItem{A: allotOf(it), From: GenSource(e, c, depth-1)})
		}
		return s
	}
	panic("unreachable")
}

type DstCfg struct {
	Asset                  string
	Accts                  []WS
	VarAccts               []WS
	Caps                   []WS
	Vecs                   []PortVec
	NClauses               []WS // number of `max` clauses in an ordered destination
	WKept                  int  // cost of `kept` instead of `to <dest>` (negative disables)
	WVar, WInorder, WAllot int
}

func genKoD(e *mc.Explorer, c *DstCfg, depth int) gen.KoD {
	if c.WKept >= 0 {
		if e.ChooseW(2, []int{0, c.WKept}) == 1 {
			return &gen.Kept{}
		}
	}
	return &gen.To{D: GenDest(e, c, depth)}
}

func GenDest(e *mc.Explorer, c *DstCfg, depth int) gen.Dest {
	const (
		kAcct = iota
		kVar
		kInorder
		kAllot
	)
	kinds := []int{kAcct}
	costs := []int{0}
	add := func(k, w int, ok bool) {
		if ok && w >= 0 {
			kinds = append(kinds, k)
			costs = append(costs, w)
		}
	}
	add(kVar, c.WVar, len(c.VarAccts) > 0)
	if depth > 0 {
		add(kInorder, c.WInorder, len(c.NClauses) > 0)
		add(kAllot, c.WAllot, len(c.Vecs) > 0)
	}
	k := kinds[0]
	if len(kinds) > 1 {
		k = kinds[e.ChooseW(len(kinds), costs)]
	}
	switch k {
	case kAcct:
		return &gen.DstAccount{E: acctExpr(pickWS(e, c.Accts))}
	case kVar:
		return &gen.DstAccount{E: acctExpr(pickWS(e, c.VarAccts))}
	case kInorder:
		n := atoi(pickWS(e, c.NClauses))
		d := &gen.DstInorder{}
		for i := 0; i < n; i++ {
			capv := pickWS(e, c.Caps)
			d.Clauses = append(d.Clauses, &gen.DstClause{Cap: mon(c.Asset, capv), To: genKoD(e, c, depth-1)})
		}
		d.Remaining = genKoD(e, c, depth-1)
		return d
	case kAllot:
		costs := make([]int, len(c.Vecs))
		for i, v := range c.Vecs {
			costs[i] = v.W
		}
		v := c.Vecs[e.ChooseW(len(c.Vecs), costs)]
		d := &gen.DstAllot{}
		for _, it := range v.Items {
			d.Items = append(d.Items, &gen.DstAllotItem{A: allotOf(it), To: genKoD(e, c, depth-1)})
		}
		return d
	}
	panic("unreachable")
}

// usedVars collects the variable names (without '$') a program mentions, in first-use order.
func usedVars(p *gen.Program) []string {
	seen := map[string]bool{}
	var out []string
	var ex func(e gen.Expr)
	ex = func(e gen.Expr) {
		switch e := e.(type) {
		case *gen.Var:
			if !seen[e.Name] {
				seen[e.Name] = true
				out = append(out, e.Name)
			}
		case *gen.MonLit:
			ex(e.Asset)
			ex(e.Amt)
		case *gen.Infix:
			ex(e.L)
			ex(e.R)
		}
	}
	al := func(a gen.Allot) {
		if v, ok := a.(*gen.Var); ok {
			ex(v)
		}
	}
	var src func(s gen.Source)
	src = func(s gen.Source) {
		switch s := s.(type) {
		case *gen.SrcAccount:
			ex(s.E)
		case *gen.SrcOverdraft:
			ex(s.Addr)
			if s.Bounded != nil {
				ex(s.Bounded)
			}
		case *gen.SrcInorder:
			for _, x := range s.Srcs {
				src(x)
			}
		case *gen.SrcCapped:
			ex(s.Cap)
			src(s.From)
		case *gen.SrcAllot:
			for _, it := range s.Items {
				al(it.A)
				src(it.From)
			}
		}
	}
	var dst func(d gen.Dest)
	kod := func(k gen.KoD) {
		if t, ok := k.(*gen.To); ok {
			dst(t.D)
		}
	}
	dst = func(d gen.Dest) {
		switch d := d.(type) {
		case *gen.DstAccount:
			ex(d.E)
		case *gen.DstInorder:
			for _, c := range d.Clauses {
				ex(c.Cap)
				kod(c.To)
			}
			kod(d.Remaining)
		case *gen.DstAllot:
			for _, it := range d.Items {
				al(it.A)
				kod(it.To)
			}
		}
	}
	sent := func(s gen.Sent) {
		switch s := s.(type) {
		case *gen.SentLit:
			ex(s.E)
		case *gen.SentAll:
			ex(s.Asset)
		}
	}
	for _, d := range p.Vars {
		if d.Origin != nil {
			for _, a := range d.Origin.Args {
				ex(a)
			}
		}
	}
	for _, s := range p.Stmts {
		switch s := s.(type) {
		case *gen.Send:
			sent(s.Sent)
			src(s.Src)
			dst(s.Dst)
		case *gen.Save:
			sent(s.Sent)
			ex(s.Acct)
		case *gen.Call:
			for _, a := range s.Args {
				ex(a)
			}
		}
	}
	return out
}
