package props

import (
	"fmt"
	"math/big"
	"sort"
	"strings"

	"github.com/formancehq/numscript/internal/verifmc/env"
	"github.com/formancehq/numscript/internal/verifmc/gen"
	"github.com/formancehq/numscript/internal/verifmc/ref"
)

// finding: one oracle clause that an execution broke. Clause names start with the id of the
// property whose statement contains the clause; each check only reports its own clauses.
type finding struct {
	Clause string
	Msg    string
}

const keptMarker = "<kept>"

type flowKey struct{ Src, Dst, Asset string }

func realFlows(ps []P) map[flowKey]*big.Int {
	m := map[flowKey]*big.Int{}
	for _, p := range ps {
		k := flowKey{p.Src, p.Dst, p.Asset}
		if m[k] == nil {
			m[k] = new(big.Int)
		}
		m[k].Add(m[k], p.Amt)
	}
	return m
}

func modelFlows(r *ref.Result) (flows map[flowKey]*big.Int, sent, kept map[string]*big.Int) {
	flows = map[flowKey]*big.Int{}
	sent = map[string]*big.Int{}
	kept = map[string]*big.Int{}
	for _, s := range r.Stmts {
		if s.Kind != "send" && s.Kind != "sendall" {
			continue
		}
		for k, v := range s.Flow {
			fk := flowKey{k[0], k[1], s.Asset}
			if flows[fk] == nil {
				flows[fk] = new(big.Int)
			}
			flows[fk].Add(flows[fk], v)
		}
		if sent[s.Asset] == nil {
			sent[s.Asset] = new(big.Int)
			kept[s.Asset] = new(big.Int)
		}
		sent[s.Asset].Add(sent[s.Asset], s.Sent)
		kept[s.Asset].Add(kept[s.Asset], s.KeptAmt)
	}
	return
}

func rowSums(f map[flowKey]*big.Int) map[[2]string]*big.Int {
	m := map[[2]string]*big.Int{}
	for k, v := range f {
		kk := [2]string{k.Src, k.Asset}
		if m[kk] == nil {
			m[kk] = new(big.Int)
		}
		m[kk].Add(m[kk], v)
	}
	return m
}

func colSums(f map[flowKey]*big.Int) map[[2]string]*big.Int {
	m := map[[2]string]*big.Int{}
	for k, v := range f {
		kk := [2]string{k.Dst, k.Asset}
		if m[kk] == nil {
			m[kk] = new(big.Int)
		}
		m[kk].Add(m[kk], v)
	}
	return m
}

func cmpAmtMaps(a, b map[[2]string]*big.Int) string {
	keys := map[[2]string]bool{}
	for k := range a {
		keys[k] = true
	}
	for k := range b {
		keys[k] = true
	}
	var ks [][2]string
	for k := range keys {
		ks = append(ks, k)
	}
	sort.Slice(ks, func(i, j int) bool { return ks[i][0]+ks[i][1] < ks[j][0]+ks[j][1] })
	for _, k := range ks {
		x, y := a[k], b[k]
		if x == nil {
			x = new(big.Int)
		}
		if y == nil {
			y = new(big.Int)
		}
		if x.Cmp(y) != 0 {
			return fmt.Sprintf("%s (%s): observed %s, expected %s", k[0], k[1], bigS(x), bigS(y))
		}
	}
	return ""
}

func flowsStr(f map[flowKey]*big.Int) string {
	var parts []string
	for k, v := range f {
		if v.Sign() != 0 {
			parts = append(parts, fmt.Sprintf("%s->%s %s %s", k.Src, k.Dst, k.Asset, bigS(v)))
		}
	}
	sort.Strings(parts)
	return strings.Join(parts, "; ")
}

func cmpFlows(a, b map[flowKey]*big.Int) string {
	keys := map[flowKey]bool{}
	for k := range a {
		keys[k] = true
	}
	for k := range b {
		keys[k] = true
	}
	var ks []flowKey
	for k := range keys {
		ks = append(ks, k)
	}
	sort.Slice(ks, func(i, j int) bool {
		return ks[i].Src+"|"+ks[i].Dst+"|"+ks[i].Asset < ks[j].Src+"|"+ks[j].Dst+"|"+ks[j].Asset
	})
	for _, k := range ks {
		x, y := a[k], b[k]
		if x == nil {
			x = new(big.Int)
		}
		if y == nil {
			y = new(big.Int)
		}
		if x.Cmp(y) != 0 {
			return fmt.Sprintf("flow %s->%s (%s): observed %s, expected %s", k.Src, k.Dst, k.Asset, bigS(x), bigS(y))
		}
	}
	return ""
}

// monitorC01 replays the postings in order on the starting balances (model-free).
func monitorC01(prog *gen.Program, in ref.Inputs, out *Out) *finding {
	unb, grants, ok := ref.Grants(prog, in)
	if !ok {
		return nil
	}
	run := map[[2]string]*big.Int{}
	get := func(a, as string) *big.Int {
		k := [2]string{a, as}
		if run[k] == nil {
			run[k] = new(big.Int)
			if b, ok := in.Bal[a][as]; ok {
				run[k].Set(b)
			}
		}
		return run[k]
	}
	floor := func(a, as string) *big.Int {
		start := new(big.Int)
		if b, ok := in.Bal[a][as]; ok {
			start.Set(b)
		}
		lim := new(big.Int) // -max(0, largest grant)
		if g, ok := grants[[2]string{a, as}]; ok && g.Sign() > 0 {
			lim.Neg(g)
		}
		if start.Cmp(lim) < 0 {
			return start
		}
		return lim
	}
	for i, p := range out.Postings {
		s := get(p.Src, p.Asset)
		s.Sub(s, p.Amt)
		d := get(p.Dst, p.Asset)
		d.Add(d, p.Amt)
		for _, a := range []string{p.Src, p.Dst} {
			if a == "world" || unb[a] {
				continue
			}
			if get(a, p.Asset).Cmp(floor(a, p.Asset)) < 0 {
				return &finding{"C01.overdraft", fmt.Sprintf("after posting %d (%s) account %s holds %s %s, below the permitted floor %s",
					i, p, a, bigS(get(a, p.Asset)), p.Asset, bigS(floor(a, p.Asset)))}
			}
		}
	}
	return nil
}

// sendAssets: the set of assets of the send statements (evaluated through the model's
// environment is unnecessary here: generators write the asset literally or through $as*).
func monitorC02(out *Out, assets map[string]bool) *finding {
	for i, p := range out.Postings {
		switch {
		case p.Amt.Sign() <= 0:
			return &finding{"C02.nonpositive", fmt.Sprintf("posting %d (%s) has a non-positive amount", i, p)}
		case p.Src == "" || p.Dst == "":
			return &finding{"C02.empty-account", fmt.Sprintf("posting %d (%s) names an empty account", i, p)}
		case p.Src == keptMarker || p.Dst == keptMarker:
			return &finding{"C02.kept-marker", fmt.Sprintf("posting %d (%s) names the internal kept marker", i, p)}
		case assets != nil && !assets[p.Asset]:
			return &finding{"C02.asset", fmt.Sprintf("posting %d (%s) carries an asset no send statement of the script uses", i, p)}
		}
	}
	return nil
}

// judge compares one execution of the real interpreter with the reference semantics and the
// model-free monitors. It returns every clause that was broken.
func judge(prog *gen.Program, in ref.Inputs, out *Out, model *ref.Result) []finding {
	var fs []finding
	add := func(c, m string) { fs = append(fs, finding{c, m}) }
	if out.Panic != "" {
		add("C12.panic", "execution panicked: "+out.Panic+" @"+out.Where)
		return fs
	}
	if out.Err != nil && !out.ResEmpty {
		add("C03.atomic", "an error was returned together with a non-empty result")
		add("C12.atomic", "an error was returned together with a non-empty result")
	}
	// model-free monitors on successful executions
	if out.Err == nil {
		if f := monitorC01(prog, in, out); f != nil {
			fs = append(fs, *f)
		}
		var assets map[string]bool
		if model.Err == "" {
			assets = map[string]bool{}
			for _, s := range model.Stmts {
				if s.Asset != "" {
					assets[s.Asset] = true
				}
			}
		}
		if f := monitorC02(out, assets); f != nil {
			fs = append(fs, *f)
		}
	}
	if model.Err == ref.EUnspecified {
		return fs
	}
	if model.Err != "" {
		switch model.Err {
		case ref.EMissingFunds:
			if out.Err == nil {
				add("C03.spurious-success", "the sources cannot supply the amount, yet the execution succeeded with "+postingsStr(out.Postings))
				// were the saved funds what was missing? (the same script without its save statements is funded)
				var rest []gen.Stmt
				for _, st := range prog.Stmts {
					if _, isSave := st.(*gen.Save); !isSave {
						rest = append(rest, st)
					}
				}
				if len(rest) < len(prog.Stmts) {
					if m2 := ref.Run(&gen.Program{Vars: prog.Vars, HasVars: prog.HasVars, Stmts: rest}, in); m2.Err == "" {
						add("C08.saved-funds-spent", "only the funds set aside by `save` could have paid for this, yet the execution succeeded with "+postingsStr(out.Postings))
					}
				}
			} else if out.ErrType != ref.EMissingFunds {
				add("C03.wrong-error", "the sources cannot supply the amount; expected an insufficient-funds error, got "+out.ErrType)
			}
		case ref.EUnboundedInSendAll, ref.EAllotmentInSendAll:
			if out.Err == nil {
				add("C04.sendall-not-rejected", "an unbounded / allotment source under send-all (no enclosing cap) was accepted: "+postingsStr(out.Postings))
			}
		case ref.ENegativeAmount:
			if out.Err == nil {
				add("C02.negative-not-rejected", "a negative amount was accepted: "+postingsStr(out.Postings))
				add("C08.negative-not-rejected", "a negative amount was accepted: "+postingsStr(out.Postings))
			}
		case ref.EAllotmentSum:
			if out.Err == nil {
				add("C06.bad-sum-not-rejected", "portions that do not add up to one were accepted")
			}
		default:
			if out.Err == nil {
				add("C12.error-swallowed", "expected failure "+model.Err+", execution succeeded")
			}
		}
		return fs
	}
	// model succeeded
	if out.Err != nil {
		switch out.ErrType {
		case ref.EMissingFunds:
			add("C03.spurious-failure", "the funds are there but the execution failed: "+out.Err.Error())
			add("C04.underdrawn", "drawn in declared order, each source to its limit, the sources supply the amount; the draw stopped short: "+out.Err.Error())
		case ref.EUnboundedInSendAll, ref.EAllotmentInSendAll:
			add("C04.sendall-rejected", "a bounded / capped source under send-all was rejected: "+out.Err.Error())
		default:
			add("C03.unexpected-error", "the script is valid and funded but failed with "+out.ErrType+": "+out.Err.Error())
		}
		return fs
	}
	rf := realFlows(out.Postings)
	mf, sent, kept := modelFlows(model)
	if d := cmpAmtMaps(rowSums(rf), rowSums(mf)); d != "" {
		add("C04.debits", "debit of "+d)
	}
	if d := cmpAmtMaps(colSums(rf), colSums(mf)); d != "" {
		add("C05.credits", "credit of "+d)
	}
	if d := cmpFlows(rf, mf); d != "" {
		add("C07.flow", d)
	}
	// totals per asset
	tot := map[string]*big.Int{}
	for _, p := range out.Postings {
		if tot[p.Asset] == nil {
			tot[p.Asset] = new(big.Int)
		}
		tot[p.Asset].Add(tot[p.Asset], p.Amt)
	}
	for as, s := range sent {
		want := new(big.Int).Sub(s, kept[as])
		got := tot[as]
		if got == nil {
			got = new(big.Int)
		}
		if got.Cmp(want) != 0 {
			add("C03.sum", fmt.Sprintf("postings add up to %s %s, expected sent %s minus kept %s", bigS(got), as, bigS(s), bigS(kept[as])))
			add("C05.conservation", fmt.Sprintf("credited %s + kept %s != sent %s (%s)", bigS(got), bigS(kept[as]), bigS(s), as))
		}
	}
	return fs
}

// features of a case used to separate root causes in violation signatures
func caseFeatures(prog *gen.Program, in ref.Inputs, model *ref.Result) string {
	var fs []string
	neg := false
	huge := false
	for _, m := range in.Bal {
		for _, v := range m {
			if v.Sign() < 0 {
				neg = true
			}
			if v.BitLen() > 63 {
				huge = true
			}
		}
	}
	if neg {
		fs = append(fs, "negbal")
	}
	if huge {
		fs = append(fs, "huge")
	}
	text := gen.Text(prog)
	for _, kw := range []string{"kept", "max", "overdraft up", "unbounded", "remaining", "save", "*"} {
		if strings.Contains(text, kw) {
			fs = append(fs, strings.ReplaceAll(kw, " ", ""))
		}
	}
	if strings.Contains(text, "-") {
		fs = append(fs, "negnum")
	}
	return strings.Join(fs, ",")
}

func toRefBal(b env.Bal) map[string]map[string]*big.Int { return b }
