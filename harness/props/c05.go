package props

import (
	"math/big"
	"time"

	"github.com/formancehq/numscript/internal/verifmc/env"

	"github.com/formancehq/numscript/internal/verifmc/gen"
	"github.com/formancehq/numscript/internal/verifmc/mc"
	"github.com/formancehq/numscript/internal/verifmc/ref"
)

// C05 Destinations are filled in order up to their caps; `remaining` gets the rest.

func init() {
	mc.Register(&mc.Property{
		ID:    "C05",
		Title: "Destinations are filled in order",
		Rule: "all single-send scripts `send $amt (source = @world destination = D)` and `send [USD *] (source = @a destination = D)` with D any destination tree within the stage's weight/depth bound (accounts, $v, ordered clauses with caps incl. 0 / negative / > 2^64, allotments, `kept` in every position) x all sent amounts / balances; " +
			"oracle: per-account credit totals == reference distribution and credited + kept == sent; non-trivial = success with >= 2 credited accounts or a kept share, amount > 0; distinct = script text + inputs",
		Assumptions: []string{
			"source fixed to @world (or @a under send-all) so that what is distributed is exactly the amount sent",
			"portion vectors restricted to those the statement defines (sum == 1, or <= 1 with `remaining`)",
		},
		QuickBudget: 240 * time.Second,
		ThoroBudget: 12 * time.Minute,
		Run:         runC05,
	})
}

func c05Dst() *DstCfg {
	return &DstCfg{
		Asset:    "USD",
		Accts:    ws(0, "x", "y", "a"),
		VarAccts: ws(0, "$v"),
		Caps:     cat(ws(0, "2", "0", "5"), ws(1, "-1", "$cc")), // $cc: a monetary variable holding a cap beyond 2^64
		Vecs: []PortVec{
			{[]string{"1/2", "1/2"}, 0},
			{[]string{"1/3", "remaining"}, 0},
			{[]string{"remaining", "2/3"}, 1},
			{[]string{"$p", "remaining"}, 1},
			{[]string{"1/3", "1/3", "1/3"}, 1},
		},
		NClauses: cat(ws(0, "1"), ws(1, "0", "2")),
		WKept:    1, WVar: 1, WInorder: 1, WAllot: 1,
	}
}

func runC05(w *mc.Worker) {
	owns := clausesOf("C05.")
	nontriv := func(m *ref.Result, out *Out) bool {
		if m.Err != "" {
			return false
		}
		for _, st := range m.Stmts {
			if st.Sent != nil && st.Sent.Sign() != 0 && len(st.Dists) >= 2 {
				return true
			}
		}
		return false
	}
	src := &SrcCfg{Asset: "USD", Accts: ws(0, "world"), WOverdraft: -1, WUnbounded: -1, WVar: -1, WInorder: -1, WCapped: -1, WAllot: -1}
	srcA := &SrcCfg{Asset: "USD", Accts: ws(0, "a"), WOverdraft: -1, WUnbounded: -1, WVar: -1, WInorder: -1, WCapped: -1, WAllot: -1}
	amtQ := []*big.Int{bi(0), bi(1), bi(2), bi(3), bi(5), bi(8)}
	amtT := append(append([]*big.Int{}, amtQ...), bi(7), bi(100), H, new(big.Int).Add(H, H))
	stage := func(name, bounds string, budget, depth int, amt []*big.Int) {
		sp := sendSpace{Name: name, Bounds: bounds + "; source @world, fixed amounts", Budget: budget, DstDepth: depth, Src: src, Dst: c05Dst(),
			Modes: []string{"fixed"}, Accts: []string{"a"}, BalDom: bigs(0), AmtDom: amt,
			VarAcctVals: []string{"x", "a"}, PortVals: []string{"1/2", "1/3", "0/1", "1/1"}, Asset: "USD"}
		runSendSpace(w, &sp, owns, nontriv)
		sp2 := sp
		sp2.Name = name + "-all"
		sp2.Bounds = bounds + "; send-all from @a with every balance"
		sp2.Src = srcA
		sp2.Modes = []string{"all"}
		sp2.BalDom = amt
		runSendSpace(w, &sp2, owns, nontriv)
	}
	stage("pow2-w2", "destination trees of weight <= 2, depth <= 1; amounts in {0,1,2^63-1,2^63,2^64-1,2^64,2^64+1,2^65}", 2, 1, pow2Dom())
	// several senders: what is credited must not depend on how the draw is split across sources
	{
		src2 := &SrcCfg{Asset: "USD", Accts: ws(0, "a", "b"), ListLens: ws(0, "2"), WOverdraft: -1, WUnbounded: -1, WVar: -1, WInorder: 0, WCapped: -1, WAllot: -1}
		sp := sendSpace{Name: "multi-source-w2", Bounds: "in-order sources of 2 accounts over {a,b} x destination trees of weight <= 2 (depth <= 2, kept in every position); balances {0,1,3}^2; amounts {0,1,2,3,5,8}", Budget: 2, SrcDepth: 1, DstDepth: 2, Src: src2, Dst: c05Dst(),
			Modes: []string{"fixed", "all"}, Accts: []string{"a", "b"}, BalDom: bigs(0, 1, 3), AmtDom: amtQ,
			VarAcctVals: []string{"x", "a"}, PortVals: []string{"1/2", "1/3", "0/1", "1/1"}, Asset: "USD"}
		runSendSpace(w, &sp, owns, nontriv)
	}
	{
		// capped sources (also under send-all, where a cap above what its source owns must not count as
		// drawn) and bounded overdrafts in front of every destination tree
		src3 := &SrcCfg{Asset: "USD", Accts: ws(0, "a", "b"), Caps: ws(0, "5", "1"), Grants: ws(0, "2"), GrantAcct: ws(0, "a"), ListLens: ws(0, "2"),
			WOverdraft: 1, WUnbounded: -1, WVar: -1, WInorder: 1, WCapped: 0, WAllot: -1}
		sp := sendSpace{Name: "capped-source-w2", Bounds: "sources `max c from S` (c in {5,1}; S an account, an account with a bounded overdraft, or a pair of accounts) x destination trees of weight <= 2 (depth <= 2, kept in every position); fixed amounts and send-all; balances {0,1,3}^2; amounts {0,1,2,3,5,8}", Budget: 2, SrcDepth: 2, DstDepth: 2, Src: src3, Dst: c05Dst(),
			Modes: []string{"all", "fixed"}, Accts: []string{"a", "b"}, BalDom: bigs(0, 1, 3), AmtDom: amtQ,
			VarAcctVals: []string{"x", "a"}, PortVals: []string{"1/2", "1/3", "0/1", "1/1"}, Asset: "USD"}
		runSendSpace(w, &sp, owns, nontriv)
	}
	runVarSeqSpace(w, "vars-L2", 1, 2, func(c *seqCase, vars map[string]string, bal env.Bal) {
		judgeSeqCase(w, c, vars, bal, owns, nontriv, false)
	})
	runThreeSendersKept(w, owns, nontriv)
	// two kept shares in one statement with a credited share between and after them, two senders
	w.Stage("two-kept", "ordered {max c1 kept, max c2 to @x, max c3 kept, remaining to @y} and allotment {1/3 kept, 1/3 to @x, 1/3 kept} from {@a @b}; caps in {1,2,4}; balances {0,1,2,3,5}^2; amounts {1,3,6,9}", func() {
		caps := []string{"1", "2", "4"}
		w.Outer("two-kept/dst", 0, func(o *mc.Explorer) {
			var dst gen.Dest
			if o.Choose(2) == 0 {
				c := func() gen.Expr { return gen.Mon("USD", caps[o.Choose(len(caps))]) }
				dst = &gen.DstInorder{Clauses: []*gen.DstClause{{Cap: c(), To: &gen.Kept{}}, {Cap: c(), To: &gen.To{D: da("x")}}, {Cap: c(), To: &gen.Kept{}}}, Remaining: &gen.To{D: da("y")}}
			} else {
				dst = &gen.DstAllot{Items: []*gen.DstAllotItem{{A: gen.Port("1/3"), To: &gen.Kept{}}, {A: gen.Port("1/3"), To: &gen.To{D: da("x")}}, {A: gen.Port("1/3"), To: &gen.Kept{}}}}
			}
			prog := &gen.Program{Stmts: []gen.Stmt{&gen.Send{Sent: &gen.SentLit{E: gen.V("amt")}, Src: lst(sa("a"), sa("b")), Dst: dst}}}
			declareUsed(prog)
			text := gen.Text(prog)
			if !w.Mine(text) {
				return
			}
			w.Owned()
			pr, ok := mustParse(w, text)
			if !ok {
				return
			}
			bals := bigs(0, 1, 2, 3, 5)
			amts := bigs(1, 3, 6, 9)
			w.Inner(0, func(in *mc.Explorer) {
				bal := env.Bal{"a": {"USD": bals[in.Choose(len(bals))]}, "b": {"USD": bals[in.Choose(len(bals))]}}
				vars := map[string]string{"amt": "USD " + amts[in.Choose(len(amts))].String()}
				judgeOne(w, prog, text, pr, vars, bal, nil, owns, nontriv)
			})
		})
	})
	if w.Tier == "quick" {
		stage("w3-d2", "destination trees of weight <= 3, depth <= 2; amounts {0,1,2,3,5,8}", 3, 2, amtQ)
		stage("w4-d2", "destination trees of weight <= 4, depth <= 2; amounts {0,1,2,3,5,8}", 4, 2, amtQ)
	} else {
		stage("w4-d2-H", "destination trees of weight <= 4, depth <= 2; amounts {0,1,2,3,5,7,8,100,H,2H}", 4, 2, amtT)
		stage("w5-d3", "destination trees of weight <= 5, depth <= 3; amounts {0,1,2,3,5,8}", 5, 3, amtQ)
		stage("w6-d3", "destination trees of weight <= 6, depth <= 3; amounts {0,1,2,3,5,8}", 6, 3, amtQ)
	}
}
