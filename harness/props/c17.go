package props

import (
	"fmt"
	"math/big"
	"strings"
	"time"

	"github.com/formancehq/numscript/internal/analysis"
	"github.com/formancehq/numscript/internal/interpreter"
	"github.com/formancehq/numscript/internal/verifmc/env"
	"github.com/formancehq/numscript/internal/verifmc/gen"
	"github.com/formancehq/numscript/internal/verifmc/mc"
)

// C17 A clean static check means no static-class failure at run time. Relates the two real
// components on the same text; no model.

func init() {
	mc.Register(&mc.Property{
		ID:    "C17",
		Title: "Clean check => no static-class failure at run time",
		Rule: "valid scripts of the typed grammar-complete generator (weight <= W, literal-rich and variable-rich) with <= E type-breaking edits: any expression position replaced by a literal of any type / an undeclared variable, operands of + and -, allotment positions, dropped or retyped declarations, arity changes, unknown or misplaced functions, and a source leaf under send-all replaced by @world / an unbounded overdraft / an allotment; each script is checked AND executed with variable values and metadata of the declared types on a rich and on a poor balance sheet, overdraft flag on; " +
			"oracle: no error diagnostic => the run does not fail with a type error, unbound variable, unbound function, bad arity or unknown type; no diagnostic at all => additionally not with unbounded / allotment source in send-all; " +
			"non-trivial = the script was edited and the checker reported no error (the implication's premise holds on an edited script), or the run ended in an error; distinct = script text + sheet",
		Assumptions: []string{"account variables never hold \"world\" (a value, not a shape)", "scripts whose check reports an error are counted and not executed"},
		QuickBudget: 240 * time.Second,
		ThoroBudget: 12 * time.Minute,
		Run:         runC17,
	})
}

// static-class failures: type error, unbound variable or function, wrong arity, unknown type
func isStaticCause(errType string) bool {
	switch errType {
	case "TypeError", "UnboundVariableErr", "UnboundFunctionErr", "BadArityErr", "InvalidTypeErr":
		return true
	}
	return false
}

var goodValue = map[string]string{"monetary": "USD 5", "account": "a", "portion": "1/2", "asset": "USD", "number": "5", "string": "k"}

// sourceLeaves lists setters for the account-leaf positions of the sources of send-all statements.
func sendAllLeaves(p *gen.Program) []func(gen.Source) {
	var out []func(gen.Source)
	var walk func(s gen.Source, set func(gen.Source))
	walk = func(s gen.Source, set func(gen.Source)) {
		switch s := s.(type) {
		case *gen.SrcAccount:
			out = append(out, set)
		case *gen.SrcOverdraft:
			out = append(out, set)
		case *gen.SrcInorder:
			for i := range s.Srcs {
				i := i
				walk(s.Srcs[i], func(n gen.Source) { s.Srcs[i] = n })
			}
		case *gen.SrcCapped:
			walk(s.From, func(n gen.Source) { s.From = n })
		case *gen.SrcAllot:
			for _, it := range s.Items {
				it := it
				walk(it.From, func(n gen.Source) { it.From = n })
			}
		}
	}
	for _, st := range p.Stmts {
		if sd, ok := st.(*gen.Send); ok {
			if _, all := sd.Sent.(*gen.SentAll); all {
				sd := sd
				walk(sd.Src, func(n gen.Source) { sd.Src = n })
			}
		}
	}
	return out
}

func c17Edit(o *mc.Explorer, p *gen.Program) (string, bool) {
	k := o.Choose(9)
	if k == 8 {
		// a builtin that only exists as a variable origin, called as a statement with arguments that fit it
		calls := []func() gen.Stmt{
			func() gen.Stmt { return &gen.Call{Name: "balance", Args: []gen.Expr{gen.Acct("a"), gen.Asset("USD")}} },
			func() gen.Stmt { return &gen.Call{Name: "meta", Args: []gen.Expr{gen.Acct("a"), gen.Str("k")}} },
			func() gen.Stmt {
				return &gen.Call{Name: "overdraft", Args: []gen.Expr{gen.Acct("a"), gen.Asset("USD")}}
			},
		}
		p.Stmts = append(p.Stmts, calls[o.Choose(len(calls))]())
		return "origin-builtin-as-statement", true
	}
	if k == 7 {
		// an origin that names a variable of the block (itself, an earlier or a later one)
		if len(p.Vars) == 0 {
			return "", false
		}
		i := o.Choose(len(p.Vars))
		j := o.Choose(len(p.Vars))
		d := p.Vars[i]
		d.Origin = &gen.Call{Name: "meta", Args: []gen.Expr{gen.V(p.Vars[j].Name.Name), gen.Str(d.Name.Name)}}
		if i == j {
			return "origin-self-reference", true
		}
		return "origin-uses-var", true
	}
	if k == 6 {
		leaves := sendAllLeaves(p)
		if len(leaves) == 0 {
			return "", false
		}
		set := leaves[o.Choose(len(leaves))]
		switch o.Choose(5) {
		case 4:
			set(&gen.SrcOverdraft{Addr: gen.Acct("world"), Bounded: gen.Mon("USD", "10")})
			return "sendall-world-bounded-overdraft", true
		case 3:
			// the unbounded overdraft sits on an account VARIABLE
			name := ""
			for _, d := range p.Vars {
				if d.Type.Name == "account" && d.Origin == nil {
					name = d.Name.Name
					break
				}
			}
			if name == "" {
				name = "acd"
				p.Vars = append(p.Vars, &gen.VarDecl{Type: &gen.TypeName{Name: "account"}, Name: gen.V(name)})
				p.HasVars = true
			}
			set(&gen.SrcOverdraft{Addr: gen.V(name)})
			return "sendall-unbounded-variable", true
		case 0:
			set(&gen.SrcAccount{E: gen.Acct("world")})
			return "sendall-world", true
		case 1:
			set(&gen.SrcOverdraft{Addr: gen.Acct("a")})
			return "sendall-unbounded", true
		default:
			set(&gen.SrcAllot{Items: []*gen.SrcAllotItem{{A: gen.Port("1/2"), From: sa("a")}, {A: gen.Port("1/2"), From: sa("b")}}})
			return "sendall-allotment", true
		}
	}
	d, _, ok := c12Edit(o, p)
	return d, ok
}

// c17Judge: one (possibly edited) script: if the checker reports no error, run it with well-typed
// variable values on a rich and on a poor sheet and judge the failure class.
func c17Judge(w *mc.Worker, prog *gen.Program, edits []string, flagsOn map[string]struct{}) {
	text := gen.Text(prog)
	var res analysis.CheckResult
	pmsg, _ := guard(func() { res = analysis.CheckSource(text) })
	if pmsg != "" {
		w.Eval(text, false, "check-panic (C18's subject)")
		return
	}
	nErr, nAll := res.GetErrorsCount(), len(res.Diagnostics)
	if nErr > 0 {
		w.Eval(text, false, "check-reports-errors")
		return
	}
	pr, ok := parseQuiet(text)
	if !ok {
		w.Eval(text, false, "unparsable")
		return
	}
	vars := map[string]string{}
	meta := env.Meta{"a": {}}
	for _, d := range prog.Vars {
		gv, known := goodValue[d.Type.Name]
		if !known {
			gv = "k"
		}
		if d.Origin == nil {
			vars[d.Name.Name] = gv
		} else if d.Origin.Name == "meta" && len(d.Origin.Args) == 2 {
			if key, isStr := d.Origin.Args[1].(*gen.StrLit); isStr {
				meta["a"][key.S] = gv
			}
		}
	}
	for si, amt := range []*big.Int{bi(1000), bi(0)} {
		bal := env.Bal{"a": {"USD": amt, "EUR/2": amt}, "b": {"USD": amt}, "world:c-d_1": {"USD": amt, "EUR/2": amt}, "lit": {"USD": amt}}
		out := RunReal(pr, vars, env.New(env.Exact, bal, meta), flagsOn)
		key := text + fmt.Sprint("|sheet", si)
		if out.Panic != "" {
			w.Eval(key, false, "run-panic (C12's subject)")
			continue
		}
		outcome := fmt.Sprintf("edits=%d diags=%d run=%s", len(edits), nAll, out.Class())
		nt := len(edits) > 0 || out.Err != nil
		w.Eval(key, nt, outcome)
		c := Case{Script: text, Vars: copyVars(vars), Balances: balStr(bal), Meta: meta,
			Extra: map[string]any{"edits": edits, "diagnostics": diagSet(res)}}
		if out.Err != nil {
			c.Observed = out.ErrType + ": " + out.Err.Error()
			switch {
			case isStaticCause(out.ErrType):
				feat := ""
				if strings.Contains(text, " + ") || strings.Contains(text, " - ") {
					feat = ":infix"
				}
				w.Violation("C17.static-failure:"+out.ErrType+feat, "the checker reported no error, yet execution failed with "+out.ErrType+": "+out.Err.Error(), len(text), c)
			case nAll == 0 && causeOf(out.ErrType) == "send-all-shape":
				w.Violation("C17.sendall-shape:"+out.ErrType, "the checker reported nothing at all, yet execution failed because of the shape of a send-all source", len(text), c)
			}
		}
		if nt {
			w.Sample(outcome, c)
		}
	}
}

func runC17(w *mc.Worker) {
	type bound struct {
		name                 string
		weight, depth, edits int
		varsFree             bool
	}
	var stages []bound
	if w.Tier == "quick" {
		stages = []bound{{"w2-e1", 2, 2, 1, false}, {"v1-e1", 1, 1, 1, true}}
	} else {
		stages = []bound{{"w3-e1", 3, 2, 1, false}, {"v2-e2", 2, 1, 2, true}, {"v3-e1", 3, 2, 1, true}}
	}
	flagsOn := map[string]struct{}{interpreter.ExperimentalOverdraftFunctionFeatureFlag: {}}
	c17Nested(w, flagsOn)
	{
		sn := 3
		if w.Tier == "thorough" {
			sn = 4
		}
		runScopeSpace(w, fmt.Sprintf("sendall-scopes-n%d", sn), sn, c17ScopeJudge(w, flagsOn))
	}
	// one metadata entry read by two variables of different declared types (its text is a value of both)
	w.Stage("meta-shared-key", "ordered pairs of declarations T1 $x = meta(@a, \"k\"), T2 $y = meta(@a, \"k\") over the six types, the entry holding a text that is a value of both types, each variable then used where its type is required", func() {
		valid := map[string][]string{"number": {"5"}, "string": {"5", "USD", "1/2", "USD 5", "bob"}, "account": {"5", "USD", "bob"}, "asset": {"USD"}, "portion": {"1/2"}, "monetary": {"USD 5"}}
		use := map[string]string{
			"account":  "send [ USD 1 ] ( source = @world destination = $%s )",
			"number":   "set_tx_meta ( \"n%s\" , $%s + 1 )",
			"monetary": "send $%s ( source = @world destination = @x )",
			"portion":  "send [ USD 4 ] ( source = @world destination = { $%s to @x remaining kept } )",
			"asset":    "send [ $%s 1 ] ( source = @world destination = @x )",
			"string":   "set_tx_meta ( $%s , 1 )",
		}
		types := []string{"string", "account", "number", "asset", "portion", "monetary"}
		w.Outer("meta-shared-key/pair", 0, func(o *mc.Explorer) {
			t1, t2 := types[o.Choose(6)], types[o.Choose(6)]
			var common []string
			for _, a := range valid[t1] {
				for _, b := range valid[t2] {
					if a == b {
						common = append(common, a)
					}
				}
			}
			if len(common) == 0 || !w.Mine("shared"+t1+t2) {
				return
			}
			w.Owned()
			mkUse := func(t, v string) string {
				if t == "number" {
					return fmt.Sprintf(use[t], v, v)
				}
				return fmt.Sprintf(use[t], v)
			}
			text := fmt.Sprintf("vars { %s $x = meta ( @a , \"k\" ) %s $y = meta ( @a , \"k\" ) }\n%s\n%s\nset_tx_meta ( \"x\" , $x )\nset_tx_meta ( \"y\" , $y )\n", t1, t2, mkUse(t1, "x"), mkUse(t2, "y"))
			w.Inner(0, func(in *mc.Explorer) {
				val := common[in.Choose(len(common))]
				var res analysis.CheckResult
				if p, _ := guard(func() { res = analysis.CheckSource(text) }); p != "" {
					return
				}
				if res.GetErrorsCount() > 0 {
					w.Eval(text+val, false, "check-reports-errors")
					return
				}
				pr, ok := parseQuiet(text)
				if !ok {
					return
				}
				meta := env.Meta{"a": {"k": val}}
				out := RunReal(pr, nil, env.New(env.Exact, nil, meta), flagsOn)
				w.Eval(text+val, t1 != t2, fmt.Sprintf("shared-key %s/%s run=%s", t1, t2, out.Class()))
				if out.Err != nil && isStaticCause(out.ErrType) {
					c := Case{Script: text, Meta: meta, Observed: out.ErrType + ": " + out.Err.Error(), Extra: map[string]any{"diagnostics": diagSet(res)}}
					w.Violation("C17.static-failure:"+out.ErrType+":shared-meta-key", "the checker reported no error, yet execution failed with "+out.ErrType+": "+out.Err.Error(), len(text), c)
				}
			})
		})
	})
	// arithmetic between a variable that has an origin and a partner of every type, in every typed position
	w.Stage("origin-infix", "3 origin declarations (balance / meta number / overdraft) x {$v op P, P op $v} x op in {+,-} x P in {number, monetary, string, account, portion} x 4 positions (sent amount, cap, overdraft bound, metadata value)", func() {
		w.Outer("origin-infix/script", 0, func(o *mc.Explorer) {
			decls := []func() *gen.VarDecl{
				func() *gen.VarDecl { return originDecl("monetary", "v", "balance", gen.Acct("a"), gen.Asset("USD")) },
				func() *gen.VarDecl { return originDecl("number", "v", "meta", gen.Acct("a"), gen.Str("n")) },
				func() *gen.VarDecl { return originDecl("monetary", "v", "overdraft", gen.Acct("a"), gen.Asset("USD")) },
			}
			partners := []func() gen.Expr{
				func() gen.Expr { return gen.Num("1") }, func() gen.Expr { return gen.Mon("USD", "1") }, func() gen.Expr { return gen.Str("s") },
				func() gen.Expr { return gen.Acct("a") }, func() gen.Expr { return gen.Port("1/2") },
			}
			d := decls[o.Choose(len(decls))]()
			op := []string{"+", "-"}[o.Choose(2)]
			p := partners[o.Choose(len(partners))]()
			var e gen.Expr = &gen.Infix{Op: op, L: gen.V("v"), R: p}
			if o.Choose(2) == 1 {
				e = &gen.Infix{Op: op, L: p, R: gen.V("v")}
			}
			var st gen.Stmt
			switch o.Choose(4) {
			case 0:
				st = &gen.Send{Sent: &gen.SentLit{E: e}, Src: sa("world"), Dst: da("x")}
			case 1:
				st = sendN("USD", "3", &gen.SrcCapped{Cap: e, From: sa("world")}, da("x"))
			case 2:
				st = sendN("USD", "3", lst(&gen.SrcOverdraft{Addr: gen.Acct("b"), Bounded: e}, sa("world")), da("x"))
			default:
				st = &gen.Call{Name: "set_tx_meta", Args: []gen.Expr{gen.Str("k"), e}}
			}
			prog := &gen.Program{Vars: []*gen.VarDecl{d}, HasVars: true, Stmts: []gen.Stmt{st}}
			if !w.Mine(gen.Text(prog)) {
				return
			}
			w.Owned()
			w.Inner(0, func(in *mc.Explorer) { c17Judge(w, prog, []string{"origin-infix"}, flagsOn) })
		})
	})
	for _, b := range stages {
		b := b
		desc := fmt.Sprintf("valid scripts of weight <= %d (depth <= %d) with <= %d type-breaking edit(s); rich and poor sheets", b.weight, b.depth, b.edits)
		if b.varsFree {
			desc += "; variable-rich scripts"
		}
		w.Stage(b.name, desc, func() {
			g := &Full{MaxStmts: 2, Depth: b.depth, VarsFree: b.varsFree}
			w.Outer(b.name+"/script", b.weight, func(o *mc.Explorer) {
				base := gen.Text(g.Program(o))
				if !w.Mine(base) {
					return
				}
				w.Owned()
				choices, obudget := o.Choices(), o.Budget
				w.Inner(b.edits, func(in *mc.Explorer) {
					rp := mc.NewReplay(choices, obudget)
					rp.Begin()
					prog := g.Program(rp)
					var edits []string
					for i := 0; i < b.edits; i++ {
						if in.ChooseW(2, []int{0, 1}) == 0 {
							break
						}
						d, ok := c17Edit(in, prog)
						if !ok {
							return
						}
						edits = append(edits, d)
					}
					c17Judge(w, prog, edits, flagsOn)
				})
			})
		})
	}
}

// c17Nested: send-all scripts whose source nests capped scopes (a cap around an allotment, a
// cap inside a cap, several capped siblings) with <= E edits, so that the checker's send-all
// bookkeeping is exercised across scope entry / exit.
func c17Nested(w *mc.Worker, flagsOn map[string]struct{}) {
	U := "USD"
	capd := func(n string, s gen.Source) gen.Source { return &gen.SrcCapped{Cap: gen.Mon(U, n), From: s} }
	allot := func(a, b gen.Source) gen.Source {
		return &gen.SrcAllot{Items: []*gen.SrcAllotItem{{A: gen.Port("1/2"), From: a}, {A: &gen.Remaining{}, From: b}}}
	}
	bases := []func() gen.Source{
		func() gen.Source { return lst(capd("10", allot(sa("a"), sa("b"))), sa("b")) },
		func() gen.Source { return lst(capd("5", capd("3", sa("a"))), sa("b")) },
		func() gen.Source {
			return lst(capd("5", lst(sa("a"), capd("2", sa("b")))), sa("b"), capd("1", sa("world")))
		},
		func() gen.Source {
			return lst(sa("a"), capd("4", allot(capd("1", sa("a")), sa("b"))), over("b", U, "2"))
		},
		func() gen.Source { return capd("7", lst(capd("2", sa("world")), sa("a"))) },
	}
	edits := 1
	if w.Tier == "thorough" {
		edits = 2
	}
	w.Stage(fmt.Sprintf("nested-sendall-e%d", edits), fmt.Sprintf("%d send-all scripts with nested capped scopes, <= %d edit(s) each (incl. replacing any source leaf by @world / unbounded overdraft / allotment); balances a=b=5", len(bases), edits), func() {
		w.Outer(fmt.Sprintf("nested-sendall-e%d/base", edits), 0, func(o *mc.Explorer) {
			bi_ := o.Choose(len(bases))
			if !w.Mine(fmt.Sprint("nested", bi_)) {
				return
			}
			w.Owned()
			w.Inner(edits, func(in *mc.Explorer) {
				prog := &gen.Program{Stmts: []gen.Stmt{sendAllS(U, bases[bi_](), da("x"))}}
				var eds []string
				for i := 0; i < edits; i++ {
					if in.ChooseW(2, []int{0, 1}) == 0 {
						break
					}
					d, ok := c17Edit(in, prog)
					if !ok {
						return
					}
					eds = append(eds, d)
				}
				text := gen.Text(prog)
				var res analysis.CheckResult
				if p, _ := guard(func() { res = analysis.CheckSource(text) }); p != "" {
					return
				}
				if res.GetErrorsCount() > 0 {
					w.Eval(text, false, "check-reports-errors")
					return
				}
				pr, ok := parseQuiet(text)
				if !ok {
					return
				}
				bal := env.Bal{"a": {U: bi(5)}, "b": {U: bi(5)}}
				out := RunReal(pr, nil, env.New(env.Exact, bal, nil), flagsOn)
				nAll := len(res.Diagnostics)
				w.Eval(text, len(eds) > 0, fmt.Sprintf("nested edits=%d diags=%d run=%s", len(eds), nAll, out.Class()))
				if out.Err == nil {
					return
				}
				c := Case{Script: text, Balances: balStr(bal), Observed: out.ErrType + ": " + out.Err.Error(), Extra: map[string]any{"edits": eds, "diagnostics": diagSet(res)}}
				switch {
				case isStaticCause(out.ErrType):
					w.Violation("C17.static-failure:"+out.ErrType, "the checker reported no error, yet execution failed with "+out.ErrType, len(text), c)
				case nAll == 0 && causeOf(out.ErrType) == "send-all-shape":
					w.Violation("C17.sendall-shape:"+out.ErrType, "the checker reported nothing at all, yet execution failed because of the shape of a send-all source", len(text), c)
				}
			})
		})
	})
}
