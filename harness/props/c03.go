package props

import (
	"math/big"
	"time"

	"github.com/formancehq/numscript/internal/verifmc/env"
	"github.com/formancehq/numscript/internal/verifmc/mc"
	"github.com/formancehq/numscript/internal/verifmc/ref"
)

// C03 A fixed-amount send moves exactly that amount or the whole script fails.

func init() {
	mc.Register(&mc.Property{
		ID:    "C03",
		Title: "Fixed-amount send: exactly n or the whole script fails",
		Rule: "(a) all single fixed-amount sends (n through $amt in {0..H+3} and as a literal) over the C04 source alphabet x destinations {@x, ordered / allotment with kept} x all balance sheets; (b) all statement sequences of length <= L over the statement alphabet x all sheets with per-statement attribution through prefix runs; (c) the shared small alphabets: statements taking amounts / caps / bounds / portions from variables incl. arithmetic on them (vars-L*), statements about edge relations - overdraft bound 0 or negative, an account paying itself, sources after a capped @world, an account named world:fees, saving exactly the balance (edge-L*), statements over two assets with amounts and accounts from balance() / overdraft() / meta() variables (origin-L*); " +
			"oracle both ways: success => postings of the send add up to n - kept; MissingFundsErr <=> the reference draw cannot supply n; failure => empty result; n = 0 => success without posting; non-trivial = the send needed >= 2 contributors, or a binding limit, or failed for missing funds; distinct = script text + inputs",
		Assumptions: []string{"reference draw of harness/ref/sem.go decides whether the sources can supply n", "statement attribution: postings of prefix k must extend those of prefix k-1; unattributable cases are counted and left to C09"},
		QuickBudget: 240 * time.Second,
		ThoroBudget: 12 * time.Minute,
		Run:         runC03,
	})
}

func runC03(w *mc.Worker) {
	owns := clausesOf("C03.")
	nontriv := func(m *ref.Result, out *Out) bool {
		if m.Err == ref.EMissingFunds {
			return true
		}
		if m.Err != "" {
			return false
		}
		for _, s := range m.Stmts {
			if s.Kind == "send" && (s.Contributors >= 2 || s.CapBinding) {
				return true
			}
		}
		return false
	}
	dst := &DstCfg{Asset: "USD", Accts: ws(0, "x", "a"),
		Caps:     ws(0, "2", "0"),
		Vecs:     []PortVec{{[]string{"1/2", "1/2"}, 0}, {[]string{"1/3", "remaining"}, 0}},
		NClauses: ws(0, "1"),
		WKept:    0, WVar: -1, WInorder: 1, WAllot: 1}
	balQ := []*big.Int{bi(0), bi(1), bi(3), bi(6), bi(-2)}
	amtQ := []*big.Int{bi(0), bi(1), bi(2), bi(4), bi(7)}
	sp := sendSpace{Src: c04Src(""), Dst: dst, Accts: []string{"a", "b"},
		VarAcctVals: []string{"a", "b", "world"}, PortVals: []string{"1/2", "1/3", "0/1", "1/1"}, Asset: "USD"}
	stage := func(name, bounds string, modes []string, budget, sd, dd int, bal, amt []*big.Int) {
		s := sp
		s.Name, s.Bounds, s.Modes, s.Budget, s.SrcDepth, s.DstDepth, s.BalDom, s.AmtDom = name, bounds, modes, budget, sd, dd, bal, amt
		runSendSpace(w, &s, owns, nontriv)
	}
	seq := func(name, bounds string, maxLen, budget int, sh *sheetDom) {
		s := &seqSpace{Name: name, Bounds: bounds, Ops: coreOps(), MaxLen: maxLen, Budget: budget, Sheets: sh}
		runSeqSpace(w, s, func(c *seqCase, bal env.Bal) {
			judgeSeqCase(w, c, nil, bal, owns, nontriv, true)
		})
	}
	sheetsQ := &sheetDom{A: bigs(0, 1, 3, 6, -2), B: bigs(0, 2, -2), X: bigs(0, 2)}
	runVarSeqSpace(w, "vars-L2", 1, 2, func(c *seqCase, vars map[string]string, bal env.Bal) {
		judgeSeqCase(w, c, vars, bal, owns, nontriv, true)
	})
	runEdgeSeqSpace(w, "edge-L2", 1, 2, func(c *seqCase, bal env.Bal) {
		judgeSeqCase(w, c, nil, bal, owns, nontriv, true)
		judgeSeqCaseMode(w, c, nil, bal, owns, nontriv, false, env.Sparse)
	})
	runOriginSeqSpace(w, "origin-L2", 1, 2, []string{"x", "a"}, func(c *seqCase, oc *originCase) {
		judgeSeqCaseX(w, c, nil, oc, owns, nontriv, true, env.Exact)
	})
	runThreeSendersKept(w, owns, nontriv)
	stage("pow2-w1", "fixed sends through $amt, source+destination weight <= 1; balances and amounts in {0,1,2^63-1,2^63,2^64-1,2^64,2^64+1,2^65}", []string{"fixed"}, 1, 1, 1, pow2Dom(), pow2Dom())
	if w.Tier == "quick" {
		stage("send-w2", "fixed sends through $amt, source+destination weight <= 2, depth <= 1; balances {0,1,3,6,-2}^2; amounts {0,1,2,4,7}", []string{"fixed"}, 2, 1, 1, balQ, amtQ)
		stage("lit-w1", "fixed sends with literal amounts 0 and 3, source+destination weight <= 1", []string{"lit:0", "lit:3"}, 1, 1, 1, balQ, amtQ[:1])
		stage("numvar-w1", "fixed sends of [USD $n] (a monetary literal whose amount is a number variable; the same parsed script runs with every value), source+destination weight <= 1; amounts {0,1,2,4,7,2^64}", []string{"numvar"}, 1, 1, 1, balQ, append(append([]*big.Int{}, amtQ...), pow2Dom()[5]))
		seq("seq-L2", "all statement sequences of length <= 2 over the 28-statement alphabet (<= 1 deviation) x 30 sheets, statements attributed through prefix runs", 2, 1, sheetsQ)
		stage("send-w3", "fixed sends through $amt, source+destination weight <= 3, depth <= 2; balances {0,1,3,6,-2}^2; amounts {0,1,2,4,7}", []string{"fixed"}, 3, 2, 2, balQ, amtQ)
	} else {
		stage("send-w3-H", "fixed sends through $amt, source+destination weight <= 3, depth <= 2; balances {0,1,3,6,-2,H}^2; amounts {0,1,2,4,7,H,H+3}", []string{"fixed"}, 3, 2, 2, append(balQ, H), append(amtQ, H, new(big.Int).Add(H, bi(3))))
		stage("numvar-w2", "fixed sends of [USD $n] (a monetary literal whose amount is a number variable; the same parsed script runs with every value), source+destination weight <= 2; amounts {0,1,2,4,7,2^64}", []string{"numvar"}, 2, 1, 1, balQ, append(append([]*big.Int{}, amtQ...), pow2Dom()[5]))
		stage("lit-w2", "fixed sends with literal amounts 0, 3 and 9223372036854775807, weight <= 2", []string{"lit:0", "lit:3", "lit:9223372036854775807"}, 2, 1, 1, append(balQ, H), amtQ[:1])
		seq("seq-L3", "all statement sequences of length <= 3 over the 28-statement alphabet (<= 1 deviation) x 30 sheets, statements attributed through prefix runs", 3, 1, sheetsQ)
		stage("send-w4", "fixed sends through $amt, source+destination weight <= 4, depth <= 2; balances {0,1,3,6,-2}^2; amounts {0,1,2,4,7}", []string{"fixed"}, 4, 2, 2, balQ, amtQ)
	}
}
