package props

import (
	"encoding/json"
	"fmt"
	"math/big"
	"os"
	"os/exec"
	"path/filepath"
	"reflect"
	"sort"
	"strings"
	"sync"
	"time"
	"unsafe"

	"github.com/formancehq/numscript/internal/interpreter"
	"github.com/formancehq/numscript/internal/verifmc/env"
	"github.com/formancehq/numscript/internal/verifmc/gen"
	"github.com/formancehq/numscript/internal/verifmc/mc"
	"github.com/formancehq/numscript/internal/verifmc/verifrt"
)

// C11 Execution is a pure, deterministic, re-entrant function of its inputs.
// Built on instrumented sources (tools/instrument): yield points + map-order seam.

func init() {
	mc.Register(&mc.Property{
		ID:    "C11",
		Title: "Pure, deterministic, re-entrant",
		Rule: "scenario scripts = every <= 1-declaration x 1-statement script of the C10 alphabet (all statement kinds, balance()/overdraft()/meta() origins, plain account variable) + the C12 base scripts, each with fixed inputs; " +
			"(a) purity: deep fingerprints (reflection walk, big.Int by value) of the variables map, the flag map, the store's balance and metadata maps and the whole parsed tree before/after each run under all four store behaviours, and a second run on the same store object returns the same result; " +
			"(b) determinism: every map iteration of the instrumented code (analysis, interpreter, lsp) permuted exhaustively (<= 4 keys, <= P non-identity picks per execution) + repetition; " +
			"(c) re-entrancy: 2 (3) concurrent Runs sharing one ParseResult, same and different inputs, private stores and one shared StaticStore, under a cooperative scheduler that owns every yield point: ALL schedules with <= K preemptions at function-entry/loop-head granularity (and <= K2 at statement granularity); every run must return exactly its solo result; plus a free-running pass of the same bodies under the race detector; " +
			"(d) flags: flag sets {none, overdraft, unknown, both} change the outcome only of scripts that call overdraft(); " +
			"non-trivial = schedules with >= 1 preemption / permutations other than identity / store modes where aliasing is possible; distinct = scenario + schedule / permutation",
		Assumptions: []string{
			"interleavings are explored at the granularity of the inserted yield points (function entries, loop heads; statements at level 2), not of machine instructions; the free-running -race pass covers unsynchronised accesses between them but is sampling, not exhaustive, and is reported separately",
			"the instrumenter rewrites the CURRENT working tree mechanically (tools/instrument); a construct it cannot handle is an infrastructure failure",
		},
		QuickBudget: 300 * time.Second,
		ThoroBudget: 14 * time.Minute,
		Run:         runC11,
	})
}

// fingerprint: a deep, address-free rendering of a value.
func fingerprint(v any) string {
	var sb strings.Builder
	seen := map[uintptr]bool{}
	var walk func(rv reflect.Value, depth int)
	walk = func(rv reflect.Value, depth int) {
		if depth > 60 {
			sb.WriteString("<deep>")
			return
		}
		if !rv.IsValid() {
			sb.WriteString("<nil>")
			return
		}
		if rv.CanAddr() && !rv.CanInterface() {
			// reached through an unexported field: re-derive a readable value
			rv = reflect.NewAt(rv.Type(), unsafe.Pointer(rv.UnsafeAddr())).Elem()
		}
		if rv.Type() == reflect.TypeOf(big.Int{}) && rv.CanAddr() {
			bi := (*big.Int)(unsafe.Pointer(rv.UnsafeAddr()))
			sb.WriteString("big:" + bi.String())
			return
		}
		if rv.Type() == reflect.TypeOf(big.Rat{}) && rv.CanAddr() {
			br := (*big.Rat)(unsafe.Pointer(rv.UnsafeAddr()))
			sb.WriteString("rat:" + br.String())
			return
		}
		switch rv.Kind() {
		case reflect.Ptr:
			if rv.IsNil() {
				sb.WriteString("nil")
				return
			}
			if seen[rv.Pointer()] {
				sb.WriteString("<cycle>")
				return
			}
			seen[rv.Pointer()] = true
			sb.WriteString("&")
			walk(rv.Elem(), depth+1)
			delete(seen, rv.Pointer())
		case reflect.Interface:
			if rv.IsNil() {
				sb.WriteString("nil")
				return
			}
			sb.WriteString(rv.Elem().Type().String() + ":")
			walk(rv.Elem(), depth+1)
		case reflect.Struct:
			sb.WriteString("{")
			for i := 0; i < rv.NumField(); i++ {
				sb.WriteString(rv.Type().Field(i).Name + "=")
				walk(rv.Field(i), depth+1)
				sb.WriteString(";")
			}
			sb.WriteString("}")
		case reflect.Slice, reflect.Array:
			if rv.Kind() == reflect.Slice && rv.IsNil() {
				sb.WriteString("nil[]")
				return
			}
			sb.WriteString("[")
			for i := 0; i < rv.Len(); i++ {
				walk(rv.Index(i), depth+1)
				sb.WriteString(",")
			}
			sb.WriteString("]")
		case reflect.Map:
			if rv.IsNil() {
				sb.WriteString("nilmap")
				return
			}
			var parts []string
			it := rv.MapRange()
			for it.Next() {
				var sub strings.Builder
				old := sb
				sb = sub
				walk(it.Key(), depth+1)
				sb.WriteString("=>")
				// map values are not addressable: copy into an addressable value
				val := reflect.New(it.Value().Type()).Elem()
				val.Set(it.Value())
				walk(val, depth+1)
				parts = append(parts, sb.String())
				sb = old
			}
			sort.Strings(parts)
			sb.WriteString("map[" + strings.Join(parts, ",") + "]")
		case reflect.String:
			sb.WriteString(fmt.Sprintf("%q", rv.String()))
		case reflect.Bool:
			sb.WriteString(fmt.Sprint(rv.Bool()))
		case reflect.Int, reflect.Int8, reflect.Int16, reflect.Int32, reflect.Int64:
			sb.WriteString(fmt.Sprint(rv.Int()))
		case reflect.Uint, reflect.Uint8, reflect.Uint16, reflect.Uint32, reflect.Uint64, reflect.Uintptr:
			sb.WriteString(fmt.Sprint(rv.Uint()))
		case reflect.Float32, reflect.Float64:
			sb.WriteString(fmt.Sprint(rv.Float()))
		default:
			sb.WriteString("<" + rv.Kind().String() + ">")
		}
	}
	rv := reflect.ValueOf(v)
	if rv.Kind() == reflect.Ptr {
		walk(rv, 0)
	} else {
		p := reflect.New(rv.Type())
		p.Elem().Set(rv)
		walk(p, 0)
	}
	return sb.String()
}

type scenario struct {
	Name  string
	Text  string
	Vars  map[string]string
	Bal   env.Bal
	Meta  env.Meta
	UsesO bool // calls overdraft()
	// AltVars: another assignment of the variables; a run with it on the same parsed script precedes
	// the history-free comparison and runs concurrently in the "different inputs" variant
	AltVars map[string]string
}

func c11Scenarios() []scenario {
	var out []scenario
	decls := c10Decls()
	ops := c10Ops()
	// (the ledger's own figure for @world is in the store: it must never matter)
	bal := env.Bal{"a": {"USD": bi(6), "EUR": bi(3)}, "b": {"USD": bi(5)}, "x": {"USD": bi(2)}, "world": {"USD": bi(-100)}}
	meta := env.Meta{"b": {"acc": "a"}}
	for di := -1; di < len(decls); di++ {
		for _, op := range ops {
			if (op.Needs == "") != (di == -1) {
				if !(di >= 0 && op.Needs == "" && op.Name == "send3 {a b}->x") {
					continue
				}
			}
			if di >= 0 && op.Needs != "" && op.Needs != decls[di].Name {
				continue
			}
			prog := &gen.Program{}
			vars := map[string]string{}
			if di >= 0 {
				prog.Vars = []*gen.VarDecl{decls[di].Mk()}
				if decls[di].Name == "w" {
					vars["w"] = "b"
				}
			}
			prog.Stmts = []gen.Stmt{op.Mk()}
			text := gen.Text(prog)
			sc := scenario{Name: op.Name, Text: text, Vars: vars, Bal: bal, Meta: meta, UsesO: strings.Contains(text, "overdraft (")}
			if _, ok := vars["w"]; ok {
				sc.AltVars = map[string]string{"w": "world"}
			}
			out = append(out, sc)
		}
	}
	{
		// a bounded overdraft on a variable account that cannot cover the amount; the other assignment names @world
		prog := &gen.Program{Vars: []*gen.VarDecl{{Type: &gen.TypeName{Name: "account"}, Name: gen.V("w")}},
			Stmts: []gen.Stmt{sendN("USD", "100", &gen.SrcOverdraft{Addr: gen.V("w"), Bounded: gen.Mon("USD", "10")}, da("x"))}}
		out = append(out, scenario{Name: "bounded-overdraft-on-$w", Text: gen.Text(prog), Vars: map[string]string{"w": "b"}, AltVars: map[string]string{"w": "world"}, Bal: bal, Meta: meta})
		// an asset the store has no entry for, on an account it knows in another asset
		prog = &gen.Program{Stmts: []gen.Stmt{sendN("EUR", "2", lst(sa("b"), sa("world")), da("x"))}}
		out = append(out, scenario{Name: "asset-unknown-for-known-account", Text: gen.Text(prog), Vars: map[string]string{}, Bal: bal, Meta: meta})
		// a declaration with an origin written BEFORE one the caller supplies
		prog = &gen.Program{Vars: []*gen.VarDecl{originDecl("monetary", "m", "balance", gen.Acct("a"), gen.Asset("USD")), {Type: &gen.TypeName{Name: "account"}, Name: gen.V("w")},
			originDecl("account", "v", "meta", gen.Acct("b"), gen.Str("acc")), {Type: &gen.TypeName{Name: "string"}, Name: gen.V("s")}},
			Stmts: []gen.Stmt{&gen.Send{Sent: &gen.SentLit{E: gen.V("m")}, Src: lst(&gen.SrcAccount{E: gen.V("w")}, &gen.SrcAccount{E: gen.V("v")}), Dst: da("x")},
				&gen.Call{Name: "set_tx_meta", Args: []gen.Expr{gen.Str("k"), gen.V("s")}}}}
		// ... and a string value with blanks around it (the caller's map must keep it as it is)
		out = append(out, scenario{Name: "origin-before-plain", Text: gen.Text(prog), Vars: map[string]string{"w": "b", "s": " padded \n"}, AltVars: map[string]string{"w": "a", "s": "other"}, Bal: bal, Meta: meta})
		// balance() of an overdrawn account: rejected, whatever flags are set (the script never calls overdraft())
		prog = &gen.Program{Vars: []*gen.VarDecl{originDecl("monetary", "m", "balance", gen.Acct("neg"), gen.Asset("USD"))},
			Stmts: []gen.Stmt{&gen.Send{Sent: &gen.SentLit{E: gen.V("m")}, Src: sa("world"), Dst: da("x")}}}
		nb := env.CloneBal(bal)
		nb["neg"] = map[string]*big.Int{"USD": bi(-7)}
		out = append(out, scenario{Name: "balance-of-overdrawn-account", Text: gen.Text(prog), Vars: map[string]string{}, Bal: nb, Meta: meta})
		// metadata of an account the store knows nothing about (the run fails; the store must stay as it was)
		prog = &gen.Program{Vars: []*gen.VarDecl{originDecl("account", "v", "meta", gen.Acct("zz"), gen.Str("acc"))},
			Stmts: []gen.Stmt{sendN("USD", "1", &gen.SrcAccount{E: gen.V("v")}, da("x"))}}
		out = append(out, scenario{Name: "meta-of-unknown-account", Text: gen.Text(prog), Vars: map[string]string{}, Bal: bal, Meta: meta})
	}
	// metadata: scripts that read a metadata entry and also write metadata (same and other keys)
	mops := append(metaOps(), op{"am b.acc=@x", 0, func() gen.Stmt {
		return &gen.Call{Name: "set_account_meta", Args: []gen.Expr{gen.Acct("b"), gen.Str("acc"), gen.Acct("x")}}
	}})
	for _, mo := range mops {
		for _, withDecl := range []bool{false, true} {
			prog := &gen.Program{}
			if withDecl {
				prog.Vars = []*gen.VarDecl{decls[3].Mk()} // account $v = meta(@b, "acc")
				prog.Stmts = []gen.Stmt{&gen.Send{Sent: &gen.SentLit{E: gen.Mon("USD", "1")}, Src: &gen.SrcAccount{E: gen.V("v")}, Dst: da("x")}, mo.Mk()}
			} else {
				prog.Stmts = []gen.Stmt{mo.Mk()}
			}
			out = append(out, scenario{Name: "meta:" + mo.Name, Text: gen.Text(prog), Vars: map[string]string{}, Bal: bal, Meta: env.Meta{"b": {"acc": "a", "k": "old"}, "a": {"k": "old", "j": "old"}}})
		}
	}
	// list-shaped constructs with 3 and 5 elements (slices the parser built by appending: their
	// backing arrays have spare capacity that every Run of the same parsed script shares)
	for _, n := range []int{3, 5} {
		d := &gen.DstInorder{Remaining: &gen.To{D: da("x")}}
		var srcs []gen.Source
		sal := &gen.SrcAllot{}
		dal := &gen.DstAllot{}
		for i := 0; i < n; i++ {
			d.Clauses = append(d.Clauses, &gen.DstClause{Cap: gen.Mon("USD", "1"), To: &gen.To{D: da(fmt.Sprintf("d%d", i))}})
			srcs = append(srcs, sa([]string{"a", "b", "x"}[i%3]))
			var pa gen.Allot = gen.Port(fmt.Sprintf("1/%d", n+1))
			if i == n-1 {
				pa = &gen.Remaining{}
			}
			sal.Items = append(sal.Items, &gen.SrcAllotItem{A: pa, From: &gen.SrcOverdraft{Addr: gen.Acct([]string{"a", "b", "x"}[i%3])}})
			var pd gen.Allot = gen.Port(fmt.Sprintf("1/%d", n+1))
			if i == n-1 {
				pd = &gen.Remaining{}
			}
			dal.Items = append(dal.Items, &gen.DstAllotItem{A: pd, To: &gen.To{D: da(fmt.Sprintf("d%d", i))}})
		}
		for k, prog := range []*gen.Program{
			{Stmts: []gen.Stmt{sendN("USD", "6", lst(srcs...), d)}},
			{Stmts: []gen.Stmt{sendN("USD", "7", sal, dal)}},
			{Stmts: []gen.Stmt{sendAllS("USD", lst(srcs...), dal), &gen.Call{Name: "set_tx_meta", Args: []gen.Expr{gen.Str("k"), gen.Num("1")}}, &gen.Call{Name: "set_tx_meta", Args: []gen.Expr{gen.Str("j"), gen.Num("2")}}}},
		} {
			out = append(out, scenario{Name: fmt.Sprintf("lists-%d-%d", n, k), Text: gen.Text(prog), Vars: map[string]string{}, Bal: bal, Meta: meta})
		}
	}
	// two malformed variable values of different kinds: which one is reported must not depend on
	// the order in which the variables map is iterated
	{
		b := c12Bases()[1] // allot-cap: portion $p, monetary $cap
		out = append(out, scenario{Name: "two-malformed-vars", Text: gen.Text(b.Mk()), Vars: map[string]string{"p": "abc", "cap": "USD x"}, Bal: bal, Meta: meta})
		var b6 c12Base
		for _, bb := range c12Bases() {
			if bb.Name == "meta-six" {
				b6 = bb
			}
		}
		if b6.Name == "meta-six" {
			out = append(out, scenario{Name: "three-malformed-vars", Text: gen.Text(b6.Mk()), Vars: map[string]string{"n": "x", "amt": "USD", "p": "7/0", "s": "k", "src": "", "as": "USD"}, Bal: bal, Meta: meta})
		}
	}
	for _, b := range c12Bases() {
		prog := b.Mk()
		vars := map[string]string{}
		for _, d := range prog.Vars {
			if d.Origin == nil {
				vars[d.Name.Name] = b.Good[d.Name.Name]
			}
		}
		m := env.Meta{}
		for _, mk := range b.Meta {
			parts := strings.SplitN(mk, ".", 2)
			if m[parts[0]] == nil {
				m[parts[0]] = map[string]string{}
			}
			m[parts[0]][parts[1]] = b.Good[mk]
		}
		text := gen.Text(prog)
		// the other assignment: every caller-supplied variable gets another value of its type
		alt := map[string]string{}
		for _, d := range prog.Vars {
			if d.Origin == nil {
				alt[d.Name.Name] = otherValueOf(d.Type.Name, vars[d.Name.Name])
			}
		}
		if len(alt) == 0 {
			alt = nil
		}
		out = append(out, scenario{Name: "base:" + b.Name, Text: text, Vars: vars, AltVars: alt, Bal: env.Bal{"a": {"USD": bi(10)}, "b": {"USD": bi(10)}}, Meta: m, UsesO: strings.Contains(text, "overdraft (")})
	}
	{
		// literals whose parts are variables: [$cur 4] with the asset, {$p ...} with the portion,
		// the account of an overdraft clause — evaluated afresh in every run of the same parsed script
		mon := func(n string) gen.Expr { return &gen.MonLit{Asset: gen.V("cur"), Amt: gen.Num(n)} }
		prog := &gen.Program{Vars: []*gen.VarDecl{{Type: &gen.TypeName{Name: "asset"}, Name: gen.V("cur")}, {Type: &gen.TypeName{Name: "portion"}, Name: gen.V("p")}, {Type: &gen.TypeName{Name: "account"}, Name: gen.V("w")}},
			Stmts: []gen.Stmt{
				&gen.Send{Sent: &gen.SentLit{E: mon("4")}, Src: lst(&gen.SrcOverdraft{Addr: gen.V("w"), Bounded: mon("1")}, sa("world")),
					Dst: &gen.DstAllot{Items: []*gen.DstAllotItem{{A: gen.V("p"), To: &gen.To{D: da("x")}}, {A: &gen.Remaining{}, To: &gen.To{D: da("y")}}}}},
				&gen.Call{Name: "set_tx_meta", Args: []gen.Expr{gen.Str("m"), mon("7")}},
				&gen.Send{Sent: &gen.SentAll{Asset: gen.V("cur")}, Src: &gen.SrcCapped{Cap: mon("2"), From: &gen.SrcAccount{E: gen.V("w")}}, Dst: da("x")},
			}}
		out = append(out, scenario{Name: "literals-with-variable-parts", Text: gen.Text(prog), Vars: map[string]string{"cur": "USD", "p": "1/4", "w": "a"},
			AltVars: map[string]string{"cur": "EUR", "p": "2/3", "w": "b"}, Bal: bal, Meta: meta})
	}
	return out
}

// otherValueOf: a value of the type that differs from cur.
func otherValueOf(typ, cur string) string {
	cands := map[string][]string{"number": {"7", "11"}, "monetary": {"EUR 4", "USD 9"}, "asset": {"EUR", "USD"}, "account": {"b", "x"}, "portion": {"1/4", "2/3"}, "string": {"other", "another"}}[typ]
	for _, c := range cands {
		if c != cur {
			return c
		}
	}
	return cur
}

var overdraftOn = map[string]struct{}{interpreter.ExperimentalOverdraftFunctionFeatureFlag: {}}

type oneshotCase struct {
	Text string                       `json:"text"`
	Vars map[string]string            `json:"vars"`
	Bal  map[string]map[string]string `json:"bal"`
	Meta env.Meta                     `json:"meta"`
}

func balToStrings(b env.Bal) map[string]map[string]string {
	out := map[string]map[string]string{}
	for a, m := range b {
		out[a] = map[string]string{}
		for k, v := range m {
			out[a][k] = v.String()
		}
	}
	return out
}

func init() {
	mc.Oneshot = func() {
		var c oneshotCase
		if err := json.NewDecoder(os.Stdin).Decode(&c); err != nil {
			fmt.Println("oneshot: bad input:", err)
			return
		}
		bal := env.Bal{}
		for a, m := range c.Bal {
			bal[a] = map[string]*big.Int{}
			for k, v := range m {
				n, _ := new(big.Int).SetString(v, 10)
				bal[a][k] = n
			}
		}
		pr, ok := parseQuiet(c.Text)
		if !ok {
			fmt.Println("oneshot: unparsable")
			return
		}
		fmt.Println("ONESHOT " + outSig(RunReal(pr, c.Vars, env.New(env.Exact, bal, c.Meta), overdraftOn)))
	}
}

// freshResult: the result of one run in a process that has executed nothing else.
func freshResult(sc scenario, bal env.Bal) (string, bool) {
	exe, err := os.Executable()
	if err != nil {
		return "", false
	}
	in, _ := json.Marshal(oneshotCase{Text: sc.Text, Vars: sc.Vars, Bal: balToStrings(bal), Meta: sc.Meta})
	cmd := exec.Command(exe, "oneshot")
	cmd.Stdin = strings.NewReader(string(in))
	outb, err := cmd.Output()
	if err != nil {
		return "", false
	}
	for _, l := range strings.Split(string(outb), "\n") {
		if strings.HasPrefix(l, "ONESHOT ") {
			return strings.TrimPrefix(l, "ONESHOT "), true
		}
	}
	return "", false
}

func runC11(w *mc.Worker) {
	scs := c11Scenarios()
	caseOf := func(sc scenario) Case {
		return Case{Script: sc.Text, Vars: sc.Vars, Balances: balStr(sc.Bal), Meta: sc.Meta}
	}

	// ---------------------------------------------------------------- (a) purity + (d) flags
	w.Stage("purity", fmt.Sprintf("%d scenarios x 4 store behaviours: inputs fingerprinted before/after, second run on the same store object; 4 flag sets", len(scs)), func() {
		w.Outer("purity/scenario", 0, func(o *mc.Explorer) {
			si := o.Choose(len(scs))
			sc := scs[si]
			if !w.Mine(fmt.Sprint("purity", si)) {
				return
			}
			w.Owned()
			pr, ok := mustParse(w, sc.Text)
			if !ok {
				return
			}
			w.Inner(0, func(in *mc.Explorer) {
				md := env.Mode(in.Choose(4))
				st := env.New(md, sc.Bal, sc.Meta)
				vars := copyVars(sc.Vars)
				flags := map[string]struct{}{interpreter.ExperimentalOverdraftFunctionFeatureFlag: {}}
				fpVars, fpFlags, fpBal, fpMeta, fpTree := fingerprint(vars), fingerprint(flags), fingerprint(st.Bal), fingerprint(st.Meta), fingerprint(&pr)
				sb0, sm0 := st.StaticMaps()
				fpSB, fpSM := fingerprint(sb0), fingerprint(sm0)
				o1 := RunReal(pr, vars, st, flags)
				key := fmt.Sprintf("purity|%s|%s", sc.Text, md)
				w.Eval(key, md == env.Static, "purity "+md.String()+" "+o1.Class())
				c := caseOf(sc)
				c.Store = md.String()
				report := func(what, before, after string) {
					c.Observed = what + " after the run: " + trunc(after, 400)
					c.Expected = what + " before the run: " + trunc(before, 400)
					w.Violation("C11.input-modified:"+what+":"+md.String(), "a run modified "+what, len(sc.Text), c)
				}
				if a := fingerprint(vars); a != fpVars {
					report("the variables map", fpVars, a)
				}
				if a := fingerprint(flags); a != fpFlags {
					report("the feature-flag map", fpFlags, a)
				}
				if a := fingerprint(st.Bal); a != fpBal {
					report("the balance maps obtained from the store", fpBal, a)
				}
				if a := fingerprint(st.Meta); a != fpMeta {
					report("the metadata maps obtained from the store", fpMeta, a)
				}
				if !st.ZeroIntact() {
					report("the number the store answered absent balances with", "0", "non-zero")
				}
				if sb1, sm1 := st.StaticMaps(); sb1 != nil {
					if a := fingerprint(sb1); a != fpSB {
						report("the balance maps obtained from the store", fpSB, a)
					}
					if a := fingerprint(sm1); a != fpSM {
						report("the metadata maps obtained from the store", fpSM, a)
					}
				}
				if a := fingerprint(&pr); a != fpTree {
					// not an input the property names: recorded, judged through its effects below
					w.Count("parsed-tree-fingerprint-changed", 1)
				}
				// same inputs, same store object, again
				o2 := RunReal(pr, vars, st, flags)
				if outSig(o1) != outSig(o2) {
					c.Observed = "first run: " + outSig(o1) + " | second run on the same store: " + outSig(o2)
					w.Violation("C11.second-run-differs:"+md.String(), "running the same script with the same inputs a second time returned a different result", len(sc.Text), c)
				}
				if md == env.Exact {
					// history-free reference: the same run in a process that has executed nothing else,
					// and again here after a run of the SAME parsed script on different inputs
					b2 := env.CloneBal(sc.Bal)
					for _, m := range b2 {
						for as, v := range m {
							m[as] = new(big.Int).Add(v, bi(4))
						}
					}
					for _, bb := range []env.Bal{b2, sc.Bal} {
						want, ok := freshResult(sc, bb)
						if !ok {
							w.Count("harness_errors", 1)
							w.Rep.Notes = append(w.Rep.Notes, "oneshot subprocess failed")
							break
						}
						if sc.AltVars != nil {
							// the other assignment, after runs with the first one: judged against its own
							// history-free reference too
							gotAlt := outSig(RunReal(pr, copyVars(sc.AltVars), env.New(env.Exact, bb, sc.Meta), overdraftOn))
							scAlt := sc
							scAlt.Vars = sc.AltVars
							if wantAlt, okA := freshResult(scAlt, bb); okA && gotAlt != wantAlt {
								ca := c
								ca.Vars = copyVars(sc.AltVars)
								ca.Observed = "after earlier runs of the same parsed script with other variable values: " + gotAlt
								ca.Expected = "in a fresh process: " + wantAlt
								ca.Balances = balStr(bb)
								w.Violation("C11.depends-on-history", "the result of a run depends on earlier runs (state kept in the parsed script or in package-level variables)", len(sc.Text), ca)
							}
						}
						got := outSig(RunReal(pr, copyVars(sc.Vars), env.New(env.Exact, bb, sc.Meta), overdraftOn))
						w.Eval(fmt.Sprintf("fresh|%s|%s", sc.Text, balStr(bb)), true, "history-free "+strings.SplitN(got, ":", 2)[0])
						if got != want {
							c.Observed = "after earlier runs of the same parsed script in this process: " + got
							c.Expected = "in a fresh process: " + want
							c.Balances = balStr(bb)
							w.Violation("C11.depends-on-history", "the result of a run depends on earlier runs (state kept in the parsed script or in package-level variables)", len(sc.Text), c)
						}
					}
					// (d) flags
					base := outSig(RunReal(pr, copyVars(sc.Vars), env.New(env.Exact, sc.Bal, sc.Meta), nil))
					baseOn := outSig(RunReal(pr, copyVars(sc.Vars), env.New(env.Exact, sc.Bal, sc.Meta), overdraftOn))
					od := interpreter.ExperimentalOverdraftFunctionFeatureFlag
					for _, fs := range []map[string]struct{}{{}, {"unknown-flag": {}}, {od: {}}, {od: {}, "unknown-flag": {}}, {"a-flag": {}, od: {}, "z-flag": {}}, {"a-flag": {}, "z-flag": {}}} {
						got := outSig(RunReal(pr, copyVars(sc.Vars), env.New(env.Exact, sc.Bal, sc.Meta), fs))
						_, on := fs[od]
						w.Eval(fmt.Sprintf("flags|%s|%v", sc.Text, fs), sc.UsesO, "flags")
						// a script that does not call overdraft() ignores every flag; one that does depends on
						// that flag alone: unrelated flags next to it change nothing
						want := base
						if sc.UsesO && on {
							want = baseOn
						}
						if got != want {
							c.Observed = fmt.Sprintf("flags %v: %s | expected, as with the gating flag alone / without flags: %s", fs, got, want)
							w.Violation("C11.flags", "feature flags changed something other than the feature they gate", len(sc.Text), c)
						}
					}
				}
				if md == env.Static {
					w.Sample("purity-static", c)
				}
			})
		})
	})

	// ---------------------------------------------------------------- (b) determinism
	permBudget := 2
	if w.Tier == "thorough" {
		permBudget = 3
	}
	w.Stage(fmt.Sprintf("map-order-P%d", permBudget), fmt.Sprintf("%d scenarios: every map iteration order of the interpreter (<= 4 keys, <= %d non-identity picks per execution), both against the canonical order and a repetition", len(scs), permBudget), func() {
		w.Outer(fmt.Sprintf("map-order-P%d/scenario", permBudget), 0, func(o *mc.Explorer) {
			si := o.Choose(len(scs))
			sc := scs[si]
			if !w.Mine(fmt.Sprint("perm", si)) {
				return
			}
			w.Owned()
			pr, ok := mustParse(w, sc.Text)
			if !ok {
				return
			}
			verifrt.SetOrderChooser(nil)
			twoFlags := map[string]struct{}{interpreter.ExperimentalOverdraftFunctionFeatureFlag: {}, "unknown-flag": {}}
			base := outSig(RunReal(pr, copyVars(sc.Vars), env.New(env.Exact, sc.Bal, sc.Meta), twoFlags))
			w.Inner(permBudget, func(in *mc.Explorer) {
				verifrt.SetOrderChooser(in)
				got := outSig(RunReal(pr, copyVars(sc.Vars), env.New(env.Exact, sc.Bal, sc.Meta), twoFlags))
				pts := verifrt.MapPoints
				verifrt.SetOrderChooser(nil)
				perm := fmt.Sprint(in.Choices())
				w.Eval("perm|"+sc.Text+"|"+perm, strings.ContainsAny(perm, "123"), fmt.Sprintf("map-points=%d same=%v", pts, got == base))
				if got != base {
					c := caseOf(sc)
					c.Observed = "with map iteration picks " + perm + ": " + got
					c.Expected = "canonical order: " + base
					w.Violation("C11.map-order-dependent", "the result depends on the order in which a map is iterated", len(sc.Text), c)
				}
			})
		})
	})

	// ---------------------------------------------------------------- (c) re-entrancy
	type schedStage struct {
		name                 string
		level, preempt, thrs int
		stride               int // take every stride-th scenario
	}
	var stages []schedStage
	if w.Tier == "quick" {
		stages = []schedStage{{"sched-L1-K1-T2", 1, 1, 2, 1}, {"sched-L1-K2-T2", 1, 2, 2, 6}, {"sched-L2-K1-T2", 2, 1, 2, 4}}
	} else {
		stages = []schedStage{{"sched-L1-K2-T2", 1, 2, 2, 1}, {"sched-L2-K1-T2", 2, 1, 2, 1}, {"sched-L1-K1-T3", 1, 1, 3, 2}, {"sched-L1-K3-T2", 1, 3, 2, 12}, {"sched-L2-K2-T2", 2, 2, 2, 16}}
	}
	for _, sg := range stages {
		sg := sg
		w.Stage(sg.name, fmt.Sprintf("every %d-th of %d scenarios x {same inputs, different inputs} x {private stores, one shared StaticStore}: %d concurrent Runs on one ParseResult, ALL schedules with <= %d preemptions at yield level %d", sg.stride, len(scs), sg.thrs, sg.preempt, sg.level), func() {
			w.Outer(sg.name+"/scenario", 0, func(o *mc.Explorer) {
				si := o.Choose((len(scs) + sg.stride - 1) / sg.stride)
				variant := o.Choose(3) // 0 same inputs/private, 1 different inputs/private, 2 same inputs/shared static store
				si *= sg.stride
				sc := scs[si]
				if !w.Mine(fmt.Sprint(sg.name, si, variant)) {
					return
				}
				w.Owned()
				pr, ok := mustParse(w, sc.Text)
				if !ok {
					return
				}
				// per-thread inputs
				bals := make([]env.Bal, sg.thrs)
				for t := range bals {
					bals[t] = sc.Bal
					if variant == 1 && t > 0 {
						b2 := env.CloneBal(sc.Bal)
						for _, m := range b2 {
							for as, v := range m {
								m[as] = new(big.Int).Add(v, bi(int64(3*t)))
							}
						}
						bals[t] = b2
					}
				}
				tvars := make([]map[string]string, sg.thrs)
				for t := range tvars {
					tvars[t] = sc.Vars
					if variant == 1 && t > 0 && sc.AltVars != nil {
						tvars[t] = sc.AltVars
					}
				}
				// solo results (no scheduler)
				solo := make([]string, sg.thrs)
				for t := range solo {
					md := env.Exact
					if variant == 2 {
						md = env.Static
					}
					solo[t] = outSig(RunReal(pr, copyVars(tvars[t]), env.New(md, bals[t], sc.Meta), overdraftOn))
				}
				w.Inner(sg.preempt, func(in *mc.Explorer) {
					outs := make([]*Out, sg.thrs)
					var shared *env.Store
					if variant == 2 {
						shared = env.New(env.Static, sc.Bal, sc.Meta)
						shared.Yield = verifrt.Yield
					}
					bodies := make([]func(), sg.thrs)
					for t := range bodies {
						t := t
						bodies[t] = func() {
							st := shared
							if st == nil {
								st = env.New(env.Exact, bals[t], sc.Meta)
								st.Yield = verifrt.Yield
							}
							outs[t] = RunReal(pr, copyVars(tvars[t]), st, overdraftOn)
						}
					}
					s, panics := verifrt.RunThreads(in, sg.level, bodies)
					w.Count("yield-points", int64(s.Points))
					key := fmt.Sprintf("%s|%d|%d|%v", sg.name, si, variant, in.Choices())
					w.Eval(key, s.Preemptions > 0, fmt.Sprintf("variant=%d preemptions=%d", variant, s.Preemptions))
					for t := range outs {
						got := "thread-panic: " + trunc(panics[t], 300)
						if panics[t] == "" && outs[t] != nil {
							got = outSig(outs[t])
						}
						// with a shared store the runs legitimately see each other's... nothing: the store content is an input and must not change
						if got != solo[t] {
							c := caseOf(sc)
							c.Store = []string{"private stores, same inputs", "private stores, different inputs", "one shared StaticStore"}[variant]
							c.Observed = fmt.Sprintf("thread %d under schedule %v (%d preemptions): %s", t, s.Trace, s.Preemptions, got)
							c.Expected = "its solo result: " + solo[t]
							w.Violation(fmt.Sprintf("C11.interference:variant%d", variant), "a Run executed concurrently with another Run on the same parsed script returned a result different from its solo result", len(sc.Text)+s.Preemptions*100, c)
							break
						}
					}
					if s.Preemptions > 0 {
						w.Sample(fmt.Sprintf("%s-v%d", sg.name, variant), Case{Script: sc.Text, Store: fmt.Sprint("variant ", variant), Observed: fmt.Sprintf("schedule %v: all threads returned their solo result", s.Trace)})
					}
				})
			})
		})
	}

	// ---------------------------------------------------------------- free-running race pass
	w.Stage("race-pass", "free-running pass of the same bodies under the Go race detector (supporting evidence, not exhaustive): 5 rounds per scenario on a freshly parsed script (so that first Runs are concurrent too), 4 goroutines x 10 iterations, private stores and one shared StaticStore", func() {
		w.Outer("race-pass/run", 0, func(o *mc.Explorer) {
			if !w.IsReplay() && w.Rank != 0 {
				return
			}
			bin := filepath.Join(os.Getenv("VERIF_BUILD"), "mc-race")
			if _, err := os.Stat(bin); err != nil {
				w.Count("harness_errors", 1)
				w.Rep.Notes = append(w.Rep.Notes, "race binary missing: "+bin)
				return
			}
			cmd := exec.Command(bin, "list")
			cmd.Env = append(os.Environ(), "VERIF_RACE_PASS=1", "GORACE=halt_on_error=0 exitcode=0")
			outb, _ := cmd.CombinedOutput()
			out := string(outb)
			n := strings.Count(out, "WARNING: DATA RACE")
			w.Eval("race-pass", true, fmt.Sprintf("race-reports=%d", n))
			w.Count("race-pass-runs", int64(strings.Count(out, "race-pass-scenario")))
			if !strings.Contains(out, "race-pass-done") {
				if i := strings.Index(out, "fatal error:"); i >= 0 {
					// e.g. "fatal error: concurrent map writes": the runtime killed the free-running pass
					line := strings.SplitN(out[i:], "\n", 2)[0]
					w.Violation("C11.fatal:"+line, "concurrent Runs on one parsed script crashed the process: "+line, 0, Case{Script: "free-running race pass", Observed: trunc(out[i:], 3000)})
					return
				}
				if n == 0 {
					w.Count("harness_errors", 1)
					w.Rep.Notes = append(w.Rep.Notes, "race pass did not finish: "+trunc(out, 500))
					return
				}
			}
			if n > 0 {
				i := strings.Index(out, "WARNING: DATA RACE")
				rep := out[i:]
				if j := strings.Index(rep, "=================="); j > 0 {
					rep = rep[:j]
				}
				where := "?"
				for _, l := range strings.Split(rep, "\n") {
					l = strings.TrimSpace(l)
					if strings.HasPrefix(l, "github.com/formancehq/numscript") && !strings.Contains(l, "/verifmc/") {
						where = strings.TrimSuffix(strings.TrimPrefix(l, "github.com/formancehq/numscript/"), "()")
						break
					}
				}
				w.Violation("C11.data-race@"+where, "the race detector reported a data race between concurrent Runs", 0, Case{Script: "free-running race pass", Observed: trunc(rep, 3000)})
			}
		})
	})
}

// RacePass is the body of the free-running -race binary (VERIF_RACE_PASS=1).
func RacePass() {
	for _, sc := range c11Scenarios() {
		if _, ok := parseQuiet(sc.Text); !ok {
			continue
		}
		fmt.Println("race-pass-scenario")
		for round, sharedStore := range []bool{false, true, false, true, false} {
			// a freshly parsed script each round: the first Runs on it are concurrent too
			pr := numscriptParse(sc.Text)
			_ = round
			var shared interpreter.Store
			if sharedStore {
				shared = sharedStatic(env.New(env.Static, sc.Bal, sc.Meta))
			}
			var wg sync.WaitGroup
			for g := 0; g < 4; g++ {
				wg.Add(1)
				gv := sc.Vars
				if g%2 == 1 && sc.AltVars != nil {
					gv = sc.AltVars
				}
				go func() {
					defer wg.Done()
					for i := 0; i < 10; i++ {
						if shared != nil {
							// the shared StaticStore: call the bundled store directly (the logging wrapper has its own counters)
							RunReal(pr, copyVars(gv), shared, overdraftOn)
						} else {
							RunReal(pr, copyVars(gv), env.New(env.Exact, sc.Bal, sc.Meta), overdraftOn)
						}
					}
				}()
			}
			wg.Wait()
		}
	}
	fmt.Println("race-pass-done")
}

func sharedStatic(s *env.Store) interpreter.Store {
	sb := interpreter.Balances{}
	for a, m := range s.Bal {
		sb[a] = m
	}
	sm := interpreter.AccountsMetadata{}
	for a, m := range s.Meta {
		sm[a] = m
	}
	return interpreter.StaticStore{Balances: sb, Meta: sm}
}
