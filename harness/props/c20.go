package props

import (
	"bytes"
	"encoding/json"
	"fmt"
	"math/big"
	"os"
	"os/exec"
	"path/filepath"
	"sort"
	"strings"
	"time"

	"github.com/formancehq/numscript/internal/analysis"
	"github.com/formancehq/numscript/internal/interpreter"
	"github.com/formancehq/numscript/internal/verifmc/env"
	"github.com/formancehq/numscript/internal/verifmc/gen"
	"github.com/formancehq/numscript/internal/verifmc/mc"
)

// C20 The CLI reports exactly what the library computes. The binary is built from the
// working tree by bin/prebuild-C20; every case spawns the real process.

func init() {
	mc.Register(&mc.Property{
		ID:    "C20",
		Title: "The CLI reports what the library computes",
		Rule: "`numscript check FILE` on generator scripts (clean, warning-only, with name / type errors from <= 1 edit, syntactically broken) and `numscript run --output-format json` on statement sequences and variable-carrying base scripts (succeeding and failing at run time, amounts and balances beyond 2^64, metadata, overdraft flag) through EACH input channel {--raw, --stdin, file flags} and three mixed ones (the script through --raw or --stdin with the inputs through the file flags; the script from a file with the inputs through --raw); " +
			"oracle: check exits non-zero iff the library counts >= 1 error and prints every library diagnostic as path:line:char - severity / message; run prints JSON whose postings, txMeta and accountsMeta equal what the library returns for the same inputs (numbers decoded with arbitrary precision), exits non-zero with the library's error message on stderr when the library fails, and the three channels agree; " +
			"non-trivial = check with >= 1 diagnostic, or run with >= 1 posting / metadata entry / an error; distinct = script text + inputs + channel",
		Assumptions: []string{"the JSON field names postings/txMeta/accountsMeta/source/destination/amount/asset of the pinned tree are the interface", "each case is one process of the binary built from the current tree (bin/prebuild-C20)"},
		QuickBudget: 240 * time.Second,
		ThoroBudget: 12 * time.Minute,
		Run:         runC20,
	})
}

type procOut struct {
	code           int
	stdout, stderr string
}

func runProc(bin string, stdin string, args ...string) procOut {
	cmd := exec.Command(bin, args...)
	var so, se bytes.Buffer
	cmd.Stdout, cmd.Stderr = &so, &se
	if stdin != "" {
		cmd.Stdin = strings.NewReader(stdin)
	}
	err := cmd.Run()
	code := 0
	if err != nil {
		if ee, ok := err.(*exec.ExitError); ok {
			code = ee.ExitCode()
		} else {
			code = -1
		}
	}
	return procOut{code, so.String(), se.String()}
}

type cliResult struct {
	Postings []struct {
		Source      string      `json:"source"`
		Destination string      `json:"destination"`
		Amount      json.Number `json:"amount"`
		Asset       string      `json:"asset"`
	} `json:"postings"`
	TxMeta       map[string]json.RawMessage   `json:"txMeta"`
	AccountsMeta map[string]map[string]string `json:"accountsMeta"`
}

func normCLI(stdout string) (string, error) {
	var r cliResult
	dec := json.NewDecoder(strings.NewReader(stdout))
	dec.UseNumber()
	if err := dec.Decode(&r); err != nil {
		return "", err
	}
	var ps []string
	for _, p := range r.Postings {
		ps = append(ps, fmt.Sprintf("%s->%s %s %s", p.Source, p.Destination, p.Asset, p.Amount.String()))
	}
	var ms []string
	for k, v := range r.TxMeta {
		// every value is printed as a JSON string holding the value's text
		var txt string
		if err := json.Unmarshal(v, &txt); err != nil {
			txt = "<not a JSON string: " + string(v) + ">"
		}
		ms = append(ms, "tx."+k+"="+txt)
	}
	for a, m := range r.AccountsMeta {
		for k, v := range m {
			ms = append(ms, a+"."+k+"="+v)
		}
	}
	sort.Strings(ms)
	return strings.Join(ps, "; ") + " meta{" + strings.Join(ms, ",") + "}", nil
}

func runC20(w *mc.Worker) {
	bin := filepath.Join(os.Getenv("VERIF_BUILD"), "numscript")
	if _, err := os.Stat(bin); err != nil {
		w.Count("harness_errors", 1)
		w.Rep.Notes = append(w.Rep.Notes, "CLI binary not built: "+bin)
		return
	}
	tmp := filepath.Join(os.Getenv("VERIF_BUILD"), fmt.Sprintf("tmp-%d", w.Rank))
	os.MkdirAll(tmp, 0o755)
	defer os.RemoveAll(tmp)
	write := func(name, content string) string {
		p := filepath.Join(tmp, name)
		os.WriteFile(p, []byte(content), 0o644)
		return p
	}

	// ---------------- check
	weight := 2
	seenCheck := map[uint64]bool{}
	checkOne := func(text string) {
		if h := mc.Hash64(text); seenCheck[h] {
			return
		} else {
			seenCheck[h] = true
		}
		path := write("s.num", text)
		var lib analysis.CheckResult
		pmsg, _ := guard(func() { lib = analysis.CheckSource(text) })
		if pmsg != "" {
			w.Eval("check|"+text, false, "library-panic (C18's subject)")
			return
		}
		po := runProc(bin, "", "check", path)
		nErr := lib.GetErrorsCount()
		c := Case{Script: text, Observed: fmt.Sprintf("exit=%d stdout=%q", po.code, po.stdout), Expected: fmt.Sprintf("library: %d errors, %d diagnostics", nErr, len(lib.Diagnostics))}
		w.Eval("check|"+text, len(lib.Diagnostics) > 0, fmt.Sprintf("check errors>0=%v diags>0=%v exit=%d", nErr > 0, len(lib.Diagnostics) > 0, po.code))
		if (po.code != 0) != (nErr > 0) {
			w.Violation("C20.check-exit", fmt.Sprintf("`numscript check` exited with %d while the library counts %d error(s)", po.code, nErr), len(text), c)
		}
		for _, d := range lib.Diagnostics {
			// the message, preceded by its position (0- or 1-based line:character)
			want := fmt.Sprintf("%d:%d", d.Range.Start.Line, d.Range.Start.Character)
			want1 := fmt.Sprintf("%d:%d", d.Range.Start.Line+1, d.Range.Start.Character+1)
			found := false
			for _, block := range strings.Split(po.stdout, d.Kind.Message())[:strings.Count(po.stdout, d.Kind.Message())] {
				ls := strings.Split(strings.TrimRight(block, "\n"), "\n")
				last := ls[len(ls)-1]
				if strings.Contains(last, ":"+want) || strings.Contains(last, ":"+want1) || strings.Contains(last, want+" ") {
					found = true
				}
			}
			if !found {
				c.Expected = "stdout to contain the position " + want + " followed by " + fmt.Sprintf("%q", d.Kind.Message())
				w.Violation("C20.check-diagnostic-missing", "`numscript check` did not print a diagnostic of the library (position, severity, message)", len(text), c)
				break
			}
		}
		if len(lib.Diagnostics) > 0 {
			w.Sample(fmt.Sprintf("check-%v", nErr > 0), c)
		}
	}
	name := fmt.Sprintf("check-w%d", weight)
	checkStage := func() {
		w.Stage(name, fmt.Sprintf("`numscript check` on generator scripts of weight <= %d, their single name edits and single token deletions", weight), func() {
			g := &Full{MaxStmts: 1 + weight/2, Depth: 1, VarsFree: w.Tier == "thorough"}
			w.Outer(name+"/script", weight, func(o *mc.Explorer) {
				prog := g.Program(o)
				base := gen.Text(prog)
				if !w.Mine(base) {
					return
				}
				w.Owned()
				choices, ob := o.Choices(), o.Budget
				w.Inner(1, func(in *mc.Explorer) {
					switch in.ChooseW(3, []int{0, 1, 1}) {
					case 0:
						checkOne(base)
					case 1:
						rp := mc.NewReplay(choices, ob)
						rp.Begin()
						p2 := g.Program(rp)
						if _, ok := c16Edit(in, p2); !ok {
							return
						}
						checkOne(gen.Text(p2))
					case 2:
						pr := gen.Print(prog)
						if len(pr.Toks) == 0 {
							return
						}
						i := in.Choose(len(pr.Toks))
						toks := append(append([]string{}, pr.Toks[:i]...), pr.Toks[i+1:]...)
						checkOne(strings.Join(toks, " ") + "\n")
					}
					w.Touch()
				})
			})
		})
	}

	// ---------------- run
	runOne := func(text string, vars map[string]string, bal env.Bal, meta env.Meta, flag bool) {
		key := "run|" + text + "|" + varsStr(vars) + "|" + balStr(bal) + fmt.Sprint(meta, flag)
		// the library, the way the CLI is documented to call it
		pr, parsedOK := parseQuiet(text)
		flags := map[string]struct{}{}
		if flag {
			flags[interpreter.ExperimentalOverdraftFunctionFeatureFlag] = struct{}{}
		}
		var lib *Out
		if parsedOK {
			lib = RunReal(pr, vars, env.New(env.Static, bal, meta), flags)
			if lib.Panic != "" {
				w.Eval(key, false, "library-panic (C12's subject)")
				return
			}
		}
		in := map[string]any{"script": text, "variables": vars, "metadata": meta, "balances": bal}
		if vars == nil {
			in["variables"] = map[string]string{}
		}
		if meta == nil {
			in["metadata"] = map[string]any{}
		}
		if bal == nil {
			in["balances"] = map[string]any{}
		}
		raw, _ := json.Marshal(in)
		vj, _ := json.Marshal(in["variables"])
		bj, _ := json.Marshal(in["balances"])
		mj, _ := json.Marshal(in["metadata"])
		common := []string{"run", "--output-format", "json"}
		if flag {
			common = append(common, "--"+interpreter.ExperimentalOverdraftFunctionFeatureFlag)
		}
		type chanOut struct {
			name string
			po   procOut
		}
		var chans []chanOut
		if len(raw) < 100000 { // a single command-line argument cannot be larger than that
			chans = append(chans, chanOut{"--raw", runProc(bin, "", append(append([]string{}, common...), "--raw", string(raw))...)})
		}
		chans = append(chans, []chanOut{
			{"--stdin", runProc(bin, string(raw), append(append([]string{}, common...), "--stdin")...)},
			{"files", runProc(bin, "", append(append([]string{}, common...), write("r.num", text), "-v", write("v.json", string(vj)), "-b", write("b.json", string(bj)), "-m", write("m.json", string(mj)))...)},
		}...)
		// mixed channels: the script through one channel, variables / balances / metadata through another
		scriptOnly, _ := json.Marshal(map[string]any{"script": text})
		inputsOnly, _ := json.Marshal(map[string]any{"variables": in["variables"], "metadata": in["metadata"], "balances": in["balances"]})
		fileFlags := func() []string {
			return []string{"-v", write("v.json", string(vj)), "-b", write("b.json", string(bj)), "-m", write("m.json", string(mj))}
		}
		if len(raw) < 100000 {
			chans = append(chans,
				chanOut{"raw-script+files", runProc(bin, "", append(append(append([]string{}, common...), "--raw", string(scriptOnly)), fileFlags()...)...)},
				chanOut{"file-script+raw-inputs", runProc(bin, "", append(append([]string{}, common...), write("r.num", text), "--raw", string(inputsOnly))...)})
		}
		chans = append(chans, chanOut{"stdin-script+files", runProc(bin, string(scriptOnly), append(append(append([]string{}, common...), "--stdin"), fileFlags()...)...)})
		expect := "parse-error"
		if parsedOK {
			expect = outSig(lib)
		}
		nt := parsedOK && (lib.Err != nil || len(lib.Postings) > 0 || len(lib.TxMeta) > 0 || len(lib.AcctMeta) > 0)
		for _, ch := range chans {
			c := Case{Script: text, Vars: vars, Balances: balStr(bal), Meta: meta, Store: ch.name,
				Observed: fmt.Sprintf("exit=%d stdout=%q stderr=%q", ch.po.code, ch.po.stdout, trunc(ch.po.stderr, 300)), Expected: "library: " + expect}
			w.Eval(key+"|"+ch.name, nt, fmt.Sprintf("run %s exit=%d", strings.SplitN(expect, ":", 2)[0], ch.po.code))
			switch {
			case !parsedOK:
				if ch.po.code == 0 {
					w.Violation("C20.run-parse-error-exit:"+ch.name, "the script has parsing errors but `numscript run` exited with 0", len(text), c)
				}
			case lib.Err != nil:
				if ch.po.code == 0 {
					w.Violation("C20.run-error-exit:"+ch.name, "the library returns an error but `numscript run` exited with 0", len(text), c)
				} else if !strings.Contains(ch.po.stderr, lib.Err.Error()) {
					w.Violation("C20.run-error-message:"+ch.name, "the library's error message is not on stderr", len(text), c)
				}
			default:
				if ch.po.code != 0 {
					w.Violation("C20.run-exit:"+ch.name, "the library succeeds but `numscript run` exited non-zero", len(text), c)
					break
				}
				got, err := normCLI(ch.po.stdout)
				if err != nil {
					w.Violation("C20.run-json:"+ch.name, "stdout is not the expected JSON document: "+err.Error(), len(text), c)
					break
				}
				var ms []string
				for k, v := range lib.TxMeta {
					ms = append(ms, "tx."+k+"="+v) // the value's own text (String()), not its JSON encoding
				}
				for a, m := range lib.AcctMeta {
					for k, v := range m {
						ms = append(ms, a+"."+k+"="+v)
					}
				}
				sort.Strings(ms)
				want := postingsStrCLI(lib.Postings) + " meta{" + strings.Join(ms, ",") + "}"
				if got != want {
					c.Expected = want
					c.Observed = got
					w.Violation("C20.run-result:"+ch.name, "the JSON printed by `numscript run` differs from the library's result", len(text), c)
				}
			}
		}
		if nt {
			w.Sample(strings.SplitN(expect, ":", 2)[0], Case{Script: text, Vars: vars, Balances: balStr(bal), Observed: chans[0].po.stdout})
		}
		w.Touch()
	}

	maxLen := 1
	if w.Tier == "thorough" {
		maxLen = 2
	}
	ops := append(coreOps(), metaOps()...)
	sheets := []env.Bal{
		{"a": {"USD": bi(5)}, "b": {"USD": bi(2)}, "x": {"USD": bi(0)}},
		{"a": {"USD": bi(0)}, "b": {"USD": bi(0)}},
		{"a": {"USD": new(big.Int).Mul(H, bi(3)), "EUR": bi(7)}, "b": {"USD": bi(-2)}},
		{"a": {"USD": bi(-1)}, "b": {"USD": bi(1)}, "x": {"USD": bi(-5)}},
	}
	name2 := fmt.Sprintf("run-seq-L%d", maxLen)
	w.Stage(name2, fmt.Sprintf("`numscript run` on all statement sequences of length <= %d over the 35-statement alphabet x 4 sheets (incl. > 2^64 and negative balances) x 3 channels", maxLen), func() {
		w.Outer(name2+"/seq", 1, func(o *mc.Explorer) {
			n := 1 + o.Choose(maxLen)
			prog := &gen.Program{}
			for i := 0; i < n; i++ {
				prog.Stmts = append(prog.Stmts, pickOp(o, ops).Mk())
			}
			text := gen.Text(prog)
			if !w.Mine(text) {
				return
			}
			w.Owned()
			w.Inner(0, func(in *mc.Explorer) {
				runOne(text, nil, sheets[in.Choose(len(sheets))], nil, false)
			})
		})
	})
	metaVals := []string{"1/1", "0/1", "100%", "0%", "3/6", "1/3", "12.050%", "0", "-1", "007", "9223372036854775807", "[ USD 0 ]", "[ EUR/2 -1 ]", "\"\"", "\"a\\\"b\"", "\"héllo // €\"", "@a:b", "@world", "USD", "EUR/2", "\"x\\u0026y \\u003c \\u003e\"", "\"a & b < c > d\""}
	w.Stage("run-values", fmt.Sprintf("`numscript run` on scripts writing each of %d literal values of the six types (whole and reducible portions, zero / negative / largest numbers, empty and quoted strings) to transaction and account metadata x 3 channels", len(metaVals)), func() {
		w.Outer("run-values/value", 0, func(o *mc.Explorer) {
			v := metaVals[o.Choose(len(metaVals))]
			text := "set_tx_meta ( \"k\" , " + v + " )\nset_account_meta ( @a , \"k\" , " + v + " )\n"
			if !w.Mine(text) {
				return
			}
			w.Owned()
			w.Inner(0, func(in *mc.Explorer) { runOne(text, nil, sheets[0], nil, false) })
		})
	})
	w.Stage("run-trailing-comment", "`numscript run` on scripts that end in a line comment, with LF and with CR LF (the comment needs its line end), x 3 channels", func() {
		texts := []string{"set_tx_meta ( \"k\" , 1 )\n// done\n", "set_tx_meta ( \"k\" , 1 ) // done\n", "set_tx_meta ( \"k\" , 1 )\r\n// done\r\n", "// only a comment\n"}
		w.Outer("run-trailing-comment/text", 0, func(o *mc.Explorer) {
			text := texts[o.Choose(len(texts))]
			if !w.Mine(text) {
				return
			}
			w.Owned()
			w.Inner(0, func(in *mc.Explorer) { runOne(text, nil, sheets[0], nil, false) })
		})
	})
	w.Stage("check-many-errors", "`numscript check` on files with exactly 1, 2, 255, 256, 257 and 512 error diagnostics (one undeclared variable per statement)", func() {
		w.Outer("check-many-errors/n", 0, func(o *mc.Explorer) {
			n := []int{1, 2, 255, 256, 257, 512}[o.Choose(6)]
			if !w.Mine(fmt.Sprint("many-errors", n)) {
				return
			}
			w.Owned()
			var sb strings.Builder
			for i := 0; i < n; i++ {
				fmt.Fprintf(&sb, "send [USD 1] (source = $u%d destination = @x)\n", i)
			}
			w.Inner(0, func(in *mc.Explorer) { checkOne(sb.String()) })
		})
	})
	w.Stage("run-odd-characters", "`numscript run` on a script writing an asset variable and a monetary variable to transaction and account metadata x 9 asset texts (control characters, DEL, quote, backslash, line separator, non-ASCII) x 3 channels", func() {
		text := "vars { asset $as monetary $m }\nset_tx_meta ( \"k\" , [ $as 7 ] )\nset_tx_meta ( \"j\" , $m )\nset_account_meta ( @a , \"k\" , [ $as 7 ] )\nset_account_meta ( @a , \"as\" , $as )\n"
		assets := []string{"USD", "A\aB", "A\x7fB", "A\x01", "A\"B", "A\\B", "Aé€B", "A\u2028B", "A\tB"}
		w.Outer("run-odd-characters/asset", 0, func(o *mc.Explorer) {
			as := assets[o.Choose(len(assets))]
			if !w.Mine("odd" + as) {
				return
			}
			w.Owned()
			w.Inner(0, func(in *mc.Explorer) {
				runOne(text, map[string]string{"as": as, "m": as + " 3"}, sheets[0], nil, false)
			})
		})
	})
	w.Stage("run-big-input", "`numscript run` with 60000 accounts in the balances (a JSON input of about 2 MB) through --stdin and the file flags", func() {
		w.Outer("run-big-input/one", 0, func(o *mc.Explorer) {
			if !w.Mine("big-input") {
				return
			}
			w.Owned()
			bal := env.Bal{}
			for i := 0; i < 60000; i++ {
				bal[fmt.Sprintf("acc:%06d", i)] = map[string]*big.Int{"USD": bi(int64(10 + i%7))}
			}
			w.Inner(0, func(in *mc.Explorer) {
				runOne("send [USD 5] (source = @acc:059999 destination = @x)\n", nil, bal, nil, false)
			})
		})
	})
	w.Stage("run-bases", "`numscript run` on the 9 variable-carrying base scripts of C12 with <= 1 deviation (variable values incl. malformed and > 2^64, missing variables, sheets, metadata) x 3 channels, plus syntactically broken scripts", func() {
		bases := c12Bases()
		w.Outer("run-bases/base", 0, func(o *mc.Explorer) {
			bi_ := o.Choose(len(bases) + 2)
			if !w.Mine(fmt.Sprint("base", bi_)) {
				return
			}
			w.Owned()
			if bi_ >= len(bases) {
				broken := []string{"send [USD 10] (\n  source = @a\n", "vars { monetary $m }\nsend $m (source = @a destination = )\n"}[bi_-len(bases)]
				w.Inner(0, func(in *mc.Explorer) { runOne(broken, nil, sheets[0], nil, false) })
				return
			}
			b := bases[bi_]
			prog := b.Mk()
			text := gen.Text(prog)
			w.Inner(1, func(in *mc.Explorer) {
				vars := map[string]string{}
				for _, d := range prog.Vars {
					if d.Origin != nil {
						continue
					}
					alts := c12Values[d.Type.Name]
					costs := make([]int, len(alts)+2)
					for i := 1; i < len(costs); i++ {
						costs[i] = 1
					}
					c := in.ChooseW(len(costs), costs)
					switch {
					case c == 0:
						vars[d.Name.Name] = b.Good[d.Name.Name]
					case c == len(costs)-1:
					default:
						vars[d.Name.Name] = alts[c-1]
					}
				}
				meta := env.Meta{}
				for _, mk := range b.Meta {
					parts := strings.SplitN(mk, ".", 2)
					alts := []string{b.Good[mk], "\x00absent", "abc"}
					c := in.ChooseW(len(alts), []int{0, 1, 1})
					if alts[c] == "\x00absent" {
						continue
					}
					if meta[parts[0]] == nil {
						meta[parts[0]] = map[string]string{}
					}
					meta[parts[0]][parts[1]] = alts[c]
				}
				si := in.ChooseW(len(sheets), []int{0, 1, 1, 1})
				runOne(text, vars, sheets[si], meta, true)
			})
		})
	})
	checkStage()
}

func init() { _ = 0 }

func postingsStrCLI(ps []P) string {
	var parts []string
	for _, p := range ps {
		parts = append(parts, fmt.Sprintf("%s->%s %s %s", p.Src, p.Dst, p.Asset, p.Amt.String()))
	}
	return strings.Join(parts, "; ")
}

func trunc(s string, n int) string {
	if len(s) > n {
		return s[:n] + "..."
	}
	return s
}
