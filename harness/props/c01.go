package props

import (
	"fmt"
	"math/big"
	"time"

	"github.com/formancehq/numscript/internal/verifmc/env"
	"github.com/formancehq/numscript/internal/verifmc/gen"
	"github.com/formancehq/numscript/internal/verifmc/mc"
	"github.com/formancehq/numscript/internal/verifmc/ref"
)

// C01 No unauthorized overdraft. Model-free invariant monitor (monitorC01 in sendjudge.go).

func init() {
	mc.Register(&mc.Property{
		ID:    "C01",
		Title: "No unauthorized overdraft",
		Rule: "(a) all single-send scripts over the C04 source alphabet (accounts repeated, aliased through $v in {a,b,world}, bounded/unbounded overdraft, caps, allotments) with destinations {@x, @a, ordered-with-kept} x all balance sheets x all amounts; (b) all statement sequences of length <= L over the statement alphabet (sends, send-all, saves, money flowing back) x all sheets; (c) the shared small alphabets: statements taking amounts / caps / bounds / portions from variables incl. arithmetic on them (vars-L*), statements about edge relations - overdraft bound 0 or negative, an account paying itself, sources after a capped @world, an account named world:fees, saving exactly the balance (edge-L*), statements over two assets with amounts and accounts from balance() / overdraft() / meta() variables (origin-L*); " +
			"oracle: replay of the returned postings in order on the starting balances, every non-exempt account stays >= min(start, -largest bounded grant); only successful executions are judged; non-trivial = success with >= 1 posting whose source is not exempt; distinct = script text + inputs",
		Assumptions: []string{"exempt accounts: world and every account the script writes with `allowing unbounded overdraft` (resolved through variable values)", "a negative overdraft allowance is treated as 0 by the monitor (weaker than the letter of the statement, never stronger)"},
		QuickBudget: 240 * time.Second,
		ThoroBudget: 12 * time.Minute,
		Run:         func(w *mc.Worker) { runMoney(w, "C01") },
	})
	mc.Register(&mc.Property{
		ID:    "C02",
		Title: "Every posting is a real transfer",
		Rule: "the C01 spaces plus negative caps on both sides, `kept` in every destination position, bounded overdraft under send-all with balance+grant < 0, account variables whose value is \"\" or the kept marker, a second asset; " +
			"oracle: every posting of every successful execution has amount > 0, the asset of the send statement that produced it (per-statement attribution through prefix runs), non-empty accounts that are not the kept marker; negative sends are rejected; non-trivial = success with >= 1 posting; distinct = script text + inputs",
		Assumptions: []string{"what an account variable with a value outside the account grammar means is not specified: only the postings of successful executions are judged for such inputs"},
		QuickBudget: 240 * time.Second,
		ThoroBudget: 12 * time.Minute,
		Run:         func(w *mc.Worker) { runMoney(w, "C02") },
	})
}

func moneySrc() *SrcCfg {
	c := c04Src("")
	// portion vectors whose other clauses exceed one together with `remaining`: what they
	// mean is not specified, but no posting of a successful execution may be non-positive
	c.Vecs = append(c.Vecs, PortVec{[]string{"remaining", "2/3", "2/3"}, 1}, PortVec{[]string{"3/4", "1/2", "remaining"}, 1})
	return c
}

func moneyDst(kept bool) *DstCfg {
	d := &DstCfg{Asset: "USD", Accts: ws(0, "x", "a"), VarAccts: ws(0, "$u"),
		Caps:     cat(ws(0, "2"), ws(1, "-1", "0")),
		Vecs:     []PortVec{{[]string{"1/2", "1/2"}, 0}, {[]string{"1/3", "remaining"}, 0}, {[]string{"remaining", "2/3", "2/3"}, 1}, {[]string{"3/4", "1/2", "remaining"}, 1}},
		NClauses: cat(ws(0, "1"), ws(1, "2")),
		WKept:    1, WVar: 1, WInorder: 1, WAllot: 1}
	if !kept {
		d.WKept = -1
	}
	return d
}

func runMoney(w *mc.Worker, id string) {
	owns := clausesOf(id + ".")
	nontriv := func(m *ref.Result, out *Out) bool {
		if out.Err != nil || out.Panic != "" {
			return false
		}
		for _, p := range out.Postings {
			if id == "C02" || p.Src != "world" {
				return true
			}
		}
		return false
	}
	balQ := []*big.Int{bi(0), bi(1), bi(3), bi(-2)}
	amtQ := []*big.Int{bi(0), bi(1), bi(2), bi(4), bi(7)}
	uvals := []string{"x", "a"}
	if id == "C02" {
		uvals = []string{"x", "a", "", keptMarker}
	}
	sp := sendSpace{Src: moneySrc(), Dst: moneyDst(true), Modes: []string{"fixed", "all"}, Accts: []string{"a", "b"},
		VarAcctVals: []string{"a", "b", "world"}, PortVals: []string{"1/2", "0/1", "1/1"}, Asset: "USD"}
	_ = uvals
	stage := func(name, bounds string, budget, sd, dd int, bal, amt []*big.Int) {
		s := sp
		s.Name, s.Bounds, s.Budget, s.SrcDepth, s.DstDepth, s.BalDom, s.AmtDom = name, bounds, budget, sd, dd, bal, amt
		runSendSpaceU(w, &s, owns, nontriv, uvals)
	}
	sheetsQ := &sheetDom{A: bigs(0, 1, 3, 6, -2), B: bigs(0, 2, -2), X: bigs(0, 2)}
	sheetsT := &sheetDom{A: append(bigs(0, 1, 3, 6, -2), H), B: bigs(0, 2, -2), X: bigs(0, 2), AEur: bigs(0, 3)}
	seq := func(name, bounds string, maxLen, budget int, sh *sheetDom) {
		s := &seqSpace{Name: name, Bounds: bounds, Ops: coreOps(), MaxLen: maxLen, Budget: budget, Sheets: sh}
		runSeqSpace(w, s, func(c *seqCase, bal env.Bal) {
			judgeSeqCase(w, c, nil, bal, owns, nontriv, id == "C02")
		})
	}
	stage("pow2-w1", "source+destination trees of joint weight <= 1; balances and amounts in {0,1,2^63-1,2^63,2^64-1,2^64,2^64+1,2^65}", 1, 1, 1, pow2Dom(), pow2Dom())
	runVarSeqSpace(w, "vars-L2", 1, 2, func(c *seqCase, vars map[string]string, bal env.Bal) {
		judgeSeqCase(w, c, vars, bal, owns, nontriv, id == "C02")
	})
	el := 2
	if w.Tier == "thorough" {
		el = 3
	}
	runEdgeSeqSpace(w, fmt.Sprintf("edge-L%d", el), 1, el, func(c *seqCase, bal env.Bal) {
		judgeSeqCase(w, c, nil, bal, owns, nontriv, id == "C02")
		judgeSeqCaseMode(w, c, nil, bal, owns, nontriv, false, env.Sparse)
	})
	peers := []string{"x", "a"}
	if id == "C02" {
		peers = []string{"x", "a", "", keptMarker, "no good", "\x00absent"}
	}
	runOriginSeqSpace(w, "origin-L2", 1, 2, peers, func(c *seqCase, oc *originCase) {
		judgeSeqCaseX(w, c, nil, oc, owns, nontriv, id == "C02", env.Exact)
	})
	runThreeSendersKept(w, owns, nontriv)
	if w.Tier == "quick" {
		stage("send-w2", "source+destination trees of joint weight <= 2, depth <= 1; balances {0,1,3,-2}^2; amounts {0,1,2,4,7}", 2, 1, 1, balQ, amtQ)
		seq("seq-L2", "all statement sequences of length <= 2 over the 28-statement alphabet (<= 1 deviation statement) x sheets a in {0,1,3,6,-2}, b in {0,2,-2}, x in {0,2}", 2, 1, sheetsQ)
		stage("send-w3", "source+destination trees of joint weight <= 3, depth <= 2; balances {0,1,3,-2}^2; amounts {0,1,2,4,7}", 3, 2, 2, balQ, amtQ)
		seq("seq-L3", "all statement sequences of length <= 3 over the 28-statement alphabet (<= 1 deviation statement) x sheets a in {0,1,3,6,-2}, b in {0,2,-2}, x in {0,2}", 3, 1, sheetsQ)
	} else {
		stage("send-w3", "source+destination trees of joint weight <= 3, depth <= 2; balances {0,1,3,-2,H}^2; amounts {0,1,2,4,7,H}", 3, 2, 2, append(balQ, H), append(amtQ, H))
		seq("seq-L3", "all statement sequences of length <= 3 over the 28-statement alphabet (<= 2 deviation statements) x sheets a in {0,1,3,6,-2,H}, b in {0,2,-2}, x in {0,2}, a/EUR in {0,3}", 3, 2, sheetsT)
		stage("send-w4", "source+destination trees of joint weight <= 4, depth <= 2; balances {0,1,3,-2}^2; amounts {0,1,2,4,7}", 4, 2, 2, balQ, amtQ)
		seq("seq-L4", "all statement sequences of length 4 over the 22 core statements x sheets a in {0,1,3,6,-2}, b in {0,2,-2}, x in {0,2}", 4, 0, sheetsQ)
	}
}

// runThreeSendersKept: a kept share larger than the first, or the first two, of three senders (the
// first sender smaller than, equal to and larger than the second), with credited clauses after it.
func runThreeSendersKept(w *mc.Worker, owns func(string) bool, nontriv func(m *ref.Result, out *Out) bool) {
	w.Stage("three-senders-kept", "send $amt from {@a @b @world} to {max K kept, remaining to @x} and to {max K kept, max 1 to @y, remaining to @x}; K in {1,2,3,4}; balances {0,1,2,3}^2; amounts {1..6}", func() {
		w.Outer("three-senders-kept/dst", 0, func(o *mc.Explorer) {
			k := []string{"1", "2", "3", "4"}[o.Choose(4)]
			d := &gen.DstInorder{Clauses: []*gen.DstClause{{Cap: gen.Mon("USD", k), To: &gen.Kept{}}}, Remaining: &gen.To{D: da("x")}}
			if o.Choose(2) == 1 {
				d.Clauses = append(d.Clauses, &gen.DstClause{Cap: gen.Mon("USD", "1"), To: &gen.To{D: da("y")}})
			}
			prog := &gen.Program{Stmts: []gen.Stmt{&gen.Send{Sent: &gen.SentLit{E: gen.V("amt")}, Src: lst(sa("a"), sa("b"), sa("world")), Dst: d}}}
			declareUsed(prog)
			text := gen.Text(prog)
			if !w.Mine(text) {
				return
			}
			w.Owned()
			pr, ok := mustParse(w, text)
			if !ok {
				return
			}
			bals := bigs(0, 1, 2, 3)
			w.Inner(0, func(in *mc.Explorer) {
				bal := env.Bal{"a": {"USD": bals[in.Choose(4)]}, "b": {"USD": bals[in.Choose(4)]}}
				vars := map[string]string{"amt": fmt.Sprint("USD ", 1+in.Choose(6))}
				judgeOne(w, prog, text, pr, vars, bal, nil, owns, nontriv)
			})
		})
	})
}
