package props

import (
	"fmt"
	"sort"
	"strings"
	"time"

	"github.com/formancehq/numscript/internal/analysis"
	"github.com/formancehq/numscript/internal/verifmc/gen"
	"github.com/formancehq/numscript/internal/verifmc/mc"
)

// C16 The checker never cries wolf and is exact about variable names.

func init() {
	mc.Register(&mc.Property{
		ID:    "C16",
		Title: "The checker never cries wolf; exact about names",
		Rule: "all statically valid scripts of the typed grammar-complete generator up to weight W (all six types, variables in every position, bounded overdraft / caps / capped allotments under send-all, origins), and all scripts obtained from them by <= E name edits: delete a declaration, duplicate one, rename a use (to an undeclared or to another declared name), replace a use by a literal of its type, add an origin that uses an earlier / later variable; " +
			"oracle: a valid script gets no error-severity diagnostic; the multiset of (unbound | duplicate | unused, name, range) reported equals the one computed by the reference resolver from declarations and uses (a variable used only before its declaration may or may not be reported unused), nothing else about variables is reported; " +
			"non-trivial = the script declares >= 1 variable or was edited; distinct = script text",
		Assumptions: []string{"validity is by construction of the generator (types of positions, literal portions summing to one, bounded send-all sources)", "ranges are taken from the printer's spans in the single-space layout"},
		QuickBudget: 240 * time.Second,
		ThoroBudget: 12 * time.Minute,
		Run:         runC16,
	})
}

type nameDiag struct {
	kind, name string
	r          [4]int
}

func (d nameDiag) String() string {
	return fmt.Sprintf("%s $%s @%d:%d-%d:%d", d.kind, d.name, d.r[0], d.r[1], d.r[2], d.r[3])
}

// varUses lists the variable occurrences of a program in checker order: for each declaration
// its origin arguments, then the statements.
type varUse struct {
	v      *gen.Var
	inDecl int // index of the declaration whose origin contains the use, -1 for statements
}

func collectUses(p *gen.Program) []varUse {
	var out []varUse
	var ex func(e gen.Expr, d int)
	ex = func(e gen.Expr, d int) {
		switch e := e.(type) {
		case *gen.Var:
			out = append(out, varUse{e, d})
		case *gen.MonLit:
			ex(e.Asset, d)
			ex(e.Amt, d)
		case *gen.Infix:
			ex(e.L, d)
			ex(e.R, d)
		}
	}
	for i, d := range p.Vars {
		if d.Origin != nil {
			for _, a := range d.Origin.Args {
				ex(a, i)
			}
		}
	}
	tmp := &gen.Program{Stmts: p.Stmts}
	slots, aslots := gen.Slots(tmp)
	// Slots lists nested positions too; only take top-level slots to avoid double counting
	_ = slots
	var src func(s gen.Source)
	al := func(a gen.Allot) {
		if v, ok := a.(*gen.Var); ok {
			out = append(out, varUse{v, -1})
		}
	}
	_ = aslots
	src = func(s gen.Source) {
		switch s := s.(type) {
		case *gen.SrcAccount:
			ex(s.E, -1)
		case *gen.SrcOverdraft:
			ex(s.Addr, -1)
			if s.Bounded != nil {
				ex(s.Bounded, -1)
			}
		case *gen.SrcInorder:
			for _, x := range s.Srcs {
				src(x)
			}
		case *gen.SrcCapped:
			ex(s.Cap, -1)
			src(s.From)
		case *gen.SrcAllot:
			for _, it := range s.Items {
				al(it.A)
				src(it.From)
			}
		}
	}
	var dst func(d gen.Dest)
	kod := func(k gen.KoD) {
		if t, ok := k.(*gen.To); ok {
			dst(t.D)
		}
	}
	dst = func(d gen.Dest) {
		switch d := d.(type) {
		case *gen.DstAccount:
			ex(d.E, -1)
		case *gen.DstInorder:
			for _, c := range d.Clauses {
				ex(c.Cap, -1)
				kod(c.To)
			}
			kod(d.Remaining)
		case *gen.DstAllot:
			for _, it := range d.Items {
				al(it.A)
				kod(it.To)
			}
		}
	}
	sent := func(s gen.Sent) {
		switch s := s.(type) {
		case *gen.SentLit:
			ex(s.E, -1)
		case *gen.SentAll:
			ex(s.Asset, -1)
		}
	}
	for _, st := range p.Stmts {
		switch s := st.(type) {
		case *gen.Send:
			sent(s.Sent)
			src(s.Src)
			dst(s.Dst)
		case *gen.Save:
			sent(s.Sent)
			ex(s.Acct, -1)
		case *gen.Call:
			for _, a := range s.Args {
				ex(a, -1)
			}
		}
	}
	return out
}

// resolveNames is the reference resolver.
func resolveNames(p *gen.Program, spanOf func(n any, kind string) [4]int) (must []nameDiag, optionalUnused map[string]bool) {
	declared := map[string]int{} // name -> index of first declaration
	usedAfter := map[string]bool{}
	usedBefore := map[string]bool{}
	uses := collectUses(p)
	ui := 0
	for i, d := range p.Vars {
		// the origin is evaluated before the variable exists: its arguments see the earlier declarations only
		for ui < len(uses) && uses[ui].inDecl == i {
			u := uses[ui]
			ui++
			if _, ok := declared[u.v.Name]; ok {
				usedAfter[u.v.Name] = true
			} else {
				must = append(must, nameDiag{"unbound", u.v.Name, spanOf(u.v, "Variable")})
				usedBefore[u.v.Name] = true
			}
		}
		if _, dup := declared[d.Name.Name]; dup {
			must = append(must, nameDiag{"duplicate", d.Name.Name, spanOf(d.Name, "VarName")})
		} else {
			declared[d.Name.Name] = i
		}
	}
	for ; ui < len(uses); ui++ {
		u := uses[ui]
		if _, ok := declared[u.v.Name]; ok {
			usedAfter[u.v.Name] = true
		} else {
			must = append(must, nameDiag{"unbound", u.v.Name, spanOf(u.v, "Variable")})
		}
	}
	optionalUnused = map[string]bool{}
	for name, i := range declared {
		if usedAfter[name] {
			continue
		}
		if usedBefore[name] {
			optionalUnused[name] = true
			continue
		}
		must = append(must, nameDiag{"unused", name, spanOf(p.Vars[i].Name, "VarName")})
	}
	return
}

func litOfType(t string) gen.Expr {
	switch t {
	case "account":
		return gen.Acct("lit")
	case "asset":
		return gen.Asset("COIN")
	case "number":
		return gen.Num("9")
	case "monetary":
		return gen.Mon("USD", "9")
	case "portion":
		return gen.Port("1/5")
	}
	return gen.Str("lit")
}

// c16Edit applies one name edit; false when the chosen alternative does not exist.
func c16Edit(o *mc.Explorer, p *gen.Program) (string, bool) {
	slots, aslots := gen.Slots(p)
	var varSlots []gen.Slot
	for _, s := range slots {
		if _, ok := s.Get().(*gen.Var); ok {
			varSlots = append(varSlots, s)
		}
	}
	var varASlots []gen.AllotSlot
	for _, s := range aslots {
		if _, ok := s.Get().(*gen.Var); ok {
			varASlots = append(varASlots, s)
		}
	}
	switch o.Choose(6) {
	case 5: // a surplus argument that is a variable (declared or not) in some call
		var calls []*gen.Call
		for _, d := range p.Vars {
			if d.Origin != nil {
				calls = append(calls, d.Origin)
			}
		}
		for _, st := range p.Stmts {
			if c, ok := st.(*gen.Call); ok {
				calls = append(calls, c)
			}
		}
		if len(calls) == 0 {
			return "", false
		}
		c := calls[o.Choose(len(calls))]
		names := []string{"zz"}
		for _, d := range p.Vars {
			names = append(names, d.Name.Name)
		}
		c.Args = append(c.Args, gen.V(names[o.Choose(len(names))]))
		return "surplus-arg-var", true
	case 0: // delete a declaration
		if len(p.Vars) == 0 {
			return "", false
		}
		i := o.Choose(len(p.Vars))
		p.Vars = append(append([]*gen.VarDecl{}, p.Vars[:i]...), p.Vars[i+1:]...)
		return "delete-decl", true
	case 1: // duplicate a declaration (right after it, or at the end)
		if len(p.Vars) == 0 {
			return "", false
		}
		i := o.Choose(len(p.Vars))
		d := p.Vars[i]
		cp := &gen.VarDecl{Type: &gen.TypeName{Name: d.Type.Name}, Name: gen.V(d.Name.Name)}
		at := i + 1
		if o.Choose(2) == 1 {
			at = len(p.Vars)
		}
		nv := append([]*gen.VarDecl{}, p.Vars[:at]...)
		nv = append(nv, cp)
		p.Vars = append(nv, p.Vars[at:]...)
		return "duplicate-decl", true
	case 2: // rename a use
		n := len(varSlots) + len(varASlots)
		if n == 0 {
			return "", false
		}
		k := o.Choose(n)
		names := []string{"zz"}
		for _, d := range p.Vars {
			names = append(names, d.Name.Name)
		}
		nn := names[o.Choose(len(names))]
		if k < len(varSlots) {
			if varSlots[k].Get().(*gen.Var).Name == nn {
				return "", false
			}
			varSlots[k].Set(gen.V(nn))
		} else {
			s := varASlots[k-len(varSlots)]
			if s.Get().(*gen.Var).Name == nn {
				return "", false
			}
			s.Set(gen.V(nn))
		}
		return "rename-use", true
	case 3: // replace a use by a literal of its type
		if len(varSlots) == 0 {
			return "", false
		}
		k := o.Choose(len(varSlots))
		name := varSlots[k].Get().(*gen.Var).Name
		varSlots[k].Set(litOfType(poolType[name]))
		return "drop-use", true
	case 4: // add an origin using another variable
		if len(p.Vars) < 2 {
			return "", false
		}
		i := o.Choose(len(p.Vars))
		j := o.Choose(len(p.Vars))
		if p.Vars[i].Origin != nil {
			return "", false
		}
		p.Vars[i].Origin = &gen.Call{Name: "meta", Args: []gen.Expr{gen.V(p.Vars[j].Name.Name), gen.Str("k")}}
		return "origin-uses-var", true
	}
	return "", false
}

// c16Judge: one script (a generator tree, possibly edited) against the static validity rules and
// the reference name resolver.
func c16Judge(w *mc.Worker, prog *gen.Program, edits []string) {
	pr := gen.Print(prog)
	text := pr.Text()
	_, starts, ends := pr.Render(pr.DefaultSeps())
	spanOf := func(n any, kind string) [4]int {
		for _, sp := range pr.Spans {
			if sp.Node == n && sp.Kind == kind {
				return [4]int{starts[sp.First].Line, starts[sp.First].Char, ends[sp.Last].Line, ends[sp.Last].Char}
			}
		}
		return [4]int{-1, -1, -1, -1}
	}
	var res analysis.CheckResult
	pmsg, where := guard(func() { res = analysis.CheckSource(text) })
	c := Case{Script: text, Extra: map[string]any{"edits": edits}}
	nt := len(prog.Vars) > 0 || len(edits) > 0
	if pmsg != "" {
		w.Eval(text, nt, "panic")
		c.Observed = "panic: " + pmsg
		w.Violation("C16.panic@"+where, "CheckSource panicked on a generated script: "+pmsg, len(text), c)
		return
	}
	var got []nameDiag
	var otherErrs []string
	for _, d := range res.Diagnostics {
		r := [4]int{d.Range.Start.Line, d.Range.Start.Character, d.Range.End.Line, d.Range.End.Character}
		switch k := d.Kind.(type) {
		case *analysis.UnboundVariable:
			got = append(got, nameDiag{"unbound", k.Name, r})
		case *analysis.DuplicateVariable:
			got = append(got, nameDiag{"duplicate", k.Name, r})
		case *analysis.UnusedVar:
			got = append(got, nameDiag{"unused", k.Name, r})
		default:
			if d.Kind.Severity() == analysis.ErrorSeverity {
				otherErrs = append(otherErrs, fmt.Sprintf("%T: %s @%d:%d", d.Kind, d.Kind.Message(), r[0], r[1]))
			}
		}
	}
	must, optional := resolveNames(prog, spanOf)
	outcome := fmt.Sprintf("edits=%d names=%d", len(edits), len(must))
	w.Eval(text, nt, outcome)
	if len(edits) == 0 && len(otherErrs) > 0 {
		c.Observed = strings.Join(otherErrs, " ; ")
		kind := strings.SplitN(otherErrs[0], ":", 2)[0]
		w.Violation("C16.false-error:"+kind, "a statically valid script received an error diagnostic: "+otherErrs[0], len(text), c)
	}
	// multiset comparison
	count := map[string]int{}
	for _, d := range must {
		count[d.String()]++
	}
	var extra, missing []string
	for _, d := range got {
		k := d.String()
		if count[k] > 0 {
			count[k]--
			continue
		}
		if d.kind == "unused" && optional[d.name] {
			continue
		}
		extra = append(extra, k)
	}
	for k, n := range count {
		for i := 0; i < n; i++ {
			missing = append(missing, k)
		}
	}
	sort.Strings(extra)
	sort.Strings(missing)
	if len(extra) > 0 || len(missing) > 0 {
		c.Observed = "reported but not expected: [" + strings.Join(extra, "; ") + "]  expected but not reported: [" + strings.Join(missing, "; ") + "]"
		kind := ""
		if len(missing) > 0 {
			kind = "missing-" + strings.SplitN(missing[0], " ", 2)[0]
		} else {
			kind = "extra-" + strings.SplitN(extra[0], " ", 2)[0]
		}
		w.Violation("C16.names:"+kind, "variable diagnostics differ from the declarations and uses of the script", len(text), c)
	}
	if nt {
		w.Sample(outcome, c)
	}
}

func runC16(w *mc.Worker) {
	type bound struct {
		name                 string
		weight, depth, edits int
		varsFree             bool
	}
	var stages []bound
	if w.Tier == "quick" {
		stages = []bound{{"w2-e1", 2, 2, 1, false}, {"v2-e1", 2, 1, 1, true}, {"w3-e0", 3, 2, 0, false}, {"v1-e2", 1, 1, 2, true}}
	} else {
		stages = []bound{{"w3-e1", 3, 2, 1, false}, {"v2-e2", 2, 1, 2, true}, {"v3-e1", 3, 2, 1, true}, {"w4-e0", 4, 2, 0, false}}
	}
	for _, b := range stages {
		b := b
		desc := fmt.Sprintf("valid scripts of weight <= %d (depth <= %d) and <= %d name edit(s)", b.weight, b.depth, b.edits)
		if b.varsFree {
			desc += ", variables cost nothing (variable-rich scripts)"
		}
		w.Stage(b.name, desc, func() {
			g := &Full{MaxStmts: 2, Depth: b.depth, VarsFree: b.varsFree, ExtraUnused: b.edits >= 2 || !b.varsFree}
			w.Outer(b.name+"/script", b.weight, func(o *mc.Explorer) {
				base := gen.Text(g.Program(o))
				if !w.Mine(base) {
					return
				}
				w.Owned()
				choices, obudget := o.Choices(), o.Budget
				w.Inner(b.edits, func(in *mc.Explorer) {
					// a fresh copy of the base (edits mutate the tree), then <= E edits
					rp := mc.NewReplay(choices, obudget)
					rp.Begin()
					prog := g.Program(rp)
					var edits []string
					for i := 0; i < b.edits; i++ {
						if in.ChooseW(2, []int{0, 1}) == 0 {
							break
						}
						d, ok := c16Edit(in, prog)
						if !ok {
							return
						}
						edits = append(edits, d)
					}
					c16Judge(w, prog, edits)
				})
			})
		})
	}
	// send-all scoping: every bounded source tree is statically valid
	sn := 3
	if w.Tier == "thorough" {
		sn = 4
	}
	runScopeSpace(w, fmt.Sprintf("sendall-scopes-n%d", sn), sn, func(prog *gen.Program, text string, bounded bool) {
		if !bounded {
			w.Count("scope-trees-not-bounded (not judged)", 1)
			return
		}
		c16Judge(w, prog, nil)
	})
	// statement sequences: what one statement leaves behind in the checker must not leak into the next
	seqOps := []func() gen.Stmt{
		func() gen.Stmt { return saveAll("USD", "a") },
		func() gen.Stmt { return saveN("USD", "2", "a") },
		func() gen.Stmt { return sendAllS("USD", sa("a"), da("x")) },
		func() gen.Stmt {
			return sendAllS("USD", &gen.SrcCapped{Cap: gen.Mon("USD", "5"), From: sa("world")}, da("x"))
		},
		func() gen.Stmt { return sendN("USD", "3", sa("world"), da("x")) },
		func() gen.Stmt { return sendN("USD", "3", &gen.SrcOverdraft{Addr: gen.Acct("a")}, da("x")) },
		func() gen.Stmt { return sendN("USD", "3", lst(sa("a"), sa("world")), da("x")) },
		func() gen.Stmt {
			return sendN("USD", "4", &gen.SrcAllot{Items: []*gen.SrcAllotItem{{A: gen.Port("1/2"), From: sa("a")}, {A: &gen.Remaining{}, From: sa("world")}}}, da("x"))
		},
		func() gen.Stmt {
			return sendN("USD", "3", sa("a"), &gen.DstInorder{Clauses: []*gen.DstClause{{Cap: gen.Mon("USD", "1"), To: &gen.Kept{}}}, Remaining: &gen.To{D: da("x")}})
		},
		func() gen.Stmt { return &gen.Call{Name: "set_tx_meta", Args: []gen.Expr{gen.Str("k"), gen.Num("1")}} },
	}
	L := 2
	if w.Tier == "thorough" {
		L = 3
	}
	w.Stage(fmt.Sprintf("stmt-seq-L%d", L), fmt.Sprintf("all sequences of <= %d statements out of %d statically valid ones (save-all, send-all, capped @world under send-all, @world / unbounded overdraft / allotment sources under a fixed amount, kept, a call): no error diagnostic", L, len(seqOps)), func() {
		w.Outer(fmt.Sprintf("stmt-seq-L%d/seq", L), 0, func(o *mc.Explorer) {
			n := 1 + o.Choose(L)
			prog := &gen.Program{}
			for i := 0; i < n; i++ {
				prog.Stmts = append(prog.Stmts, seqOps[o.Choose(len(seqOps))]())
			}
			if !w.Mine(gen.Text(prog)) {
				return
			}
			w.Owned()
			w.Inner(0, func(in *mc.Explorer) { c16Judge(w, prog, nil) })
		})
	})
}
