package props

import (
	"bufio"
	"bytes"
	"encoding/json"
	"fmt"
	"io"
	"os"
	"sort"
	"strconv"
	"strings"
	"time"
	"unicode/utf16"

	"github.com/formancehq/numscript/internal/analysis"
	"github.com/formancehq/numscript/internal/lsp"
	"github.com/formancehq/numscript/internal/verifmc/gen"
	"github.com/formancehq/numscript/internal/verifmc/mc"
	"github.com/formancehq/numscript/internal/verifmc/ref"
	"github.com/sourcegraph/jsonrpc2"
)

// C19 The language server answers correctly from the latest text of the right document.
// Explicit-state search over request histories; every transition calls the real lsp.Handle.

func init() {
	mc.Register(&mc.Property{
		ID:    "C19",
		Title: "The language server answers from the latest text",
		Rule: "(a) model state = uri -> latest text over U URIs (one more is never opened) and T texts (valid with variables; same names with other types and positions; erroneous half-typed; empty; ...); operations didOpen / didChange(uri, text) (didChange also with several content changes, the last one wins); ALL histories of length <= H, then breadth-first to depth D deduplicated on the model state, which must equal the server's own document map (read through an overlay export shim) in every reached state; in EVERY reached state the full query battery: hover and definition at every position of every URI and documentSymbol of every URI; " +
			"oracle: every response and every publishDiagnostics notification (captured from stdout) equals that of a fresh server that has only seen didOpen(uri, latest text); unopened URI => null; " +
			"(b) navigation: all generator scripts (variable-rich, weight <= W, including send-all statements over sources the checker rejects) x EVERY position (counted in UTF-16 code units, the protocol's default encoding; the scripts contain characters outside the BMP), the diagnostics published on didOpen against analysis.CheckSource called directly, and those of weight <= W-1 also laid out one token per line with falling / with rising indentation x EVERY position of every line: inside a use of a declared variable => hover names that variable and its declared type over the use's range, definition is the exact range of the declaration; on a builtin function name => that builtin; elsewhere => nothing (the position at a token's end may answer either way); " +
			"non-trivial = the history changes some document at least once after opening it or touches two URIs / the script has >= 1 variable use; distinct = history / script text",
		Assumptions: []string{"histories are well-formed: the first notification for a URI is didOpen, later ones didChange, every didChange carries >= 1 content change", "symbol lists are compared as sets (the protocol does not order them)"},
		QuickBudget: 240 * time.Second,
		ThoroBudget: 12 * time.Minute,
		Run:         runC19,
	})
}

// capture runs f with os.Stdout / os.Stderr redirected and returns what was written to stdout.
func capture(f func()) string {
	oldOut, oldErr := os.Stdout, os.Stderr
	r, wr, err := os.Pipe()
	if err != nil {
		panic(err)
	}
	devnull, _ := os.OpenFile(os.DevNull, os.O_WRONLY, 0)
	os.Stdout, os.Stderr = wr, devnull
	done := make(chan string)
	go func() {
		b, _ := io.ReadAll(r)
		done <- string(b)
	}()
	func() {
		defer func() {
			os.Stdout, os.Stderr = oldOut, oldErr
			wr.Close()
			devnull.Close()
		}()
		f()
	}()
	out := <-done
	r.Close()
	return out
}

// frames parses Content-Length framed JSON-RPC messages.
func frames(s string) []string {
	var out []string
	rd := bufio.NewReader(strings.NewReader(s))
	for {
		line, err := rd.ReadString('\n')
		if err != nil {
			return out
		}
		line = strings.TrimSpace(line)
		if !strings.HasPrefix(line, "Content-Length:") {
			continue
		}
		n, _ := strconv.Atoi(strings.TrimSpace(strings.TrimPrefix(line, "Content-Length:")))
		rd.ReadString('\n') // blank line
		buf := make([]byte, n)
		if _, err := io.ReadFull(rd, buf); err != nil {
			return out
		}
		out = append(out, string(buf))
	}
}

func rawMsg(v any) *json.RawMessage {
	b, _ := json.Marshal(v)
	r := json.RawMessage(b)
	return &r
}

type lspServer struct{ st lsp.State }

func newServer() *lspServer { return &lspServer{st: lsp.InitialState()} }

// call returns (marshalled result, captured stdout, panic message)
func (s *lspServer) call(method string, params any) (string, string, string) {
	var res any
	var pmsg, out string
	run := func() {
		pmsg, _ = guard(func() {
			res = lsp.Handle(jsonrpc2.Request{Method: method, Params: rawMsg(params)}, &s.st)
		})
	}
	if strings.HasPrefix(method, "textDocument/did") {
		out = capture(run) // notifications publish diagnostics on stdout
	} else {
		run()
	}
	b, err := json.Marshal(res)
	if err != nil {
		return "marshal-error:" + err.Error(), out, pmsg
	}
	return string(b), out, pmsg
}

func (s *lspServer) open(uri, text string) (string, string) {
	_, out, p := s.call("textDocument/didOpen", map[string]any{"textDocument": map[string]any{"uri": uri, "languageId": "numscript", "version": 1, "text": text}})
	return out, p
}

func (s *lspServer) change(uri string, texts ...string) (string, string) {
	ch := []map[string]any{} // an empty list is sent as [] (a change notification that changes nothing)
	for _, t := range texts {
		ch = append(ch, map[string]any{"text": t})
	}
	_, out, p := s.call("textDocument/didChange", map[string]any{"textDocument": map[string]any{"uri": uri, "version": 2}, "contentChanges": ch})
	return out, p
}

func posParams(uri string, line, ch int) map[string]any {
	return map[string]any{"textDocument": map[string]any{"uri": uri}, "position": map[string]any{"line": line, "character": ch}}
}

// canonical form of a documentSymbol response: sorted elements
func canonSymbols(js string) string {
	var arr []json.RawMessage
	if err := json.Unmarshal([]byte(js), &arr); err != nil || arr == nil {
		return js
	}
	ss := make([]string, len(arr))
	for i, a := range arr {
		ss[i] = string(a)
	}
	sort.Strings(ss)
	return "[" + strings.Join(ss, ",") + "]"
}

// canonical form of a publishDiagnostics notification: uri + sorted diagnostics
func canonDiagnostics(frame string) string {
	var m struct {
		Method string `json:"method"`
		Params struct {
			URI         string            `json:"uri"`
			Diagnostics []json.RawMessage `json:"diagnostics"`
		} `json:"params"`
	}
	if err := json.Unmarshal([]byte(frame), &m); err != nil {
		return "unparsable:" + frame
	}
	ss := make([]string, len(m.Params.Diagnostics))
	for i, d := range m.Params.Diagnostics {
		ss[i] = string(d)
	}
	sort.Strings(ss)
	return m.Method + "|" + m.Params.URI + "|[" + strings.Join(ss, ",") + "]"
}

// diagnosticsMismatch compares the one publishDiagnostics notification of a didOpen with what
// analysis.CheckSource reports for the text, ranges converted to UTF-16 code units by the harness.
func diagnosticsMismatch(out, uri, text string) string {
	fr := frames(out)
	if len(fr) != 1 {
		return fmt.Sprintf("didOpen produced %d notifications, expected one publishDiagnostics", len(fr))
	}
	var m struct {
		Method string `json:"method"`
		Params struct {
			URI         string `json:"uri"`
			Diagnostics []struct {
				Range    lspRange `json:"range"`
				Severity int      `json:"severity"`
				Message  string   `json:"message"`
			} `json:"diagnostics"`
		} `json:"params"`
	}
	if err := json.Unmarshal([]byte(fr[0]), &m); err != nil || m.Method != "textDocument/publishDiagnostics" || m.Params.URI != uri {
		return "didOpen did not publish diagnostics for the opened URI: " + trunc(fr[0], 200)
	}
	_, conv := lspModel(text)
	var got, want []string
	for _, d := range m.Params.Diagnostics {
		got = append(got, fmt.Sprintf("%d:%d-%d:%d|%d|%s", d.Range.Start.Line, d.Range.Start.Character, d.Range.End.Line, d.Range.End.Character, d.Severity, d.Message))
	}
	for _, d := range analysis.CheckSource(text).Diagnostics {
		r := d.Range
		sl, sc := conv(r.Start.Line, r.Start.Character)
		el, ec := conv(r.End.Line, r.End.Character)
		want = append(want, fmt.Sprintf("%d:%d-%d:%d|%d|%s", sl, sc, el, ec, int(d.Kind.Severity()), d.Kind.Message()))
	}
	sort.Strings(got)
	sort.Strings(want)
	if strings.Join(got, "\n") != strings.Join(want, "\n") {
		return fmt.Sprintf("published diagnostics %q differ from the analysis of the same text %q", got, want)
	}
	return ""
}

// lspModel converts positions of the parser's model (lines end at \n, characters) into LSP positions
// (lines end at \r\n, \n or a lone \r; UTF-16 code units) for one text, and lists the LSP lines.
func lspModel(text string) (lines []string, conv func(line, char int) (int, int)) {
	rs := []rune(text)
	nlStart, lspStart := []int{0}, []int{0}
	lineFrom := 0
	for i := 0; i < len(rs); i++ {
		switch {
		case rs[i] == '\n':
			nlStart = append(nlStart, i+1)
			lines = append(lines, string(rs[lineFrom:i]))
			lineFrom = i + 1
			lspStart = append(lspStart, i+1)
		case rs[i] == '\r' && i+1 < len(rs) && rs[i+1] == '\n':
			nlStart = append(nlStart, i+2)
			lines = append(lines, string(rs[lineFrom:i]))
			lineFrom = i + 2
			lspStart = append(lspStart, i+2)
			i++
		case rs[i] == '\r':
			lines = append(lines, string(rs[lineFrom:i]))
			lineFrom = i + 1
			lspStart = append(lspStart, i+1)
		}
	}
	lines = append(lines, string(rs[lineFrom:]))
	conv = func(line, char int) (int, int) {
		if line < 0 || line >= len(nlStart) {
			return line, char
		}
		// a position k characters past the end of its line stays k past the end of that line
		end := len(rs)
		if line+1 < len(nlStart) {
			end = nlStart[line+1] - 1
		}
		off := nlStart[line] + char
		over := 0
		if off > end {
			over, off = off-end, end
		}
		ln := sort.SearchInts(lspStart, off+1) - 1
		n := 0
		for i := lspStart[ln]; i < off; i++ {
			n += utf16.RuneLen(rs[i])
		}
		return ln, n + over
	}
	return lines, conv
}

func positionsOf(text string) [][2]int {
	var out [][2]int
	for li, l := range strings.Split(text, "\n") {
		n := len([]rune(l))
		for ch := 0; ch <= n+1; ch++ {
			out = append(out, [2]int{li, ch})
		}
	}
	return out
}

var c19Texts = []string{
	"vars {\n  account $src\n  monetary $amt\n}\nsend $amt (\n  source = $src\n  destination = @dest\n)\nset_tx_meta(\"k\", $amt)\n",
	"vars { monetary $src account $amt }\nsend $src (source = $amt destination = @d)\n",
	"vars { account $src }\nsend [USD 10] (\n  source = $src allowing overdraft up to\n",
	"",
	"vars { number $n = meta(@a, \"k\") }\nfoo($n)\nset_tx_meta(\"é€\", $n)\n",
	"vars { portion $p }\nsend [USD *] (source = @w destination = { $p to @a remaining kept })\n",
}

type c19Op struct {
	uri, text int
	multi     bool // didChange with two content changes (the last one wins)
	reopen    bool // didClose followed by didOpen (when the document is open)
	empty     bool // didChange with an empty list of content changes: the text stays as it was
}

// freshBattery caches, per text, the responses of a fresh server that only opened that text.
type battery struct {
	diag    string
	symbols string
	hover   map[[2]int]string
	defn    map[[2]int]string
}

func runBattery(s *lspServer, uri, text string) (*battery, string) {
	b := &battery{hover: map[[2]int]string{}, defn: map[[2]int]string{}}
	res, _, p := s.call("textDocument/documentSymbol", map[string]any{"textDocument": map[string]any{"uri": uri}})
	if p != "" {
		return nil, "documentSymbol panicked: " + p
	}
	b.symbols = canonSymbols(res)
	for _, pos := range positionsOf(text) {
		r, _, p := s.call("textDocument/hover", posParams(uri, pos[0], pos[1]))
		if p != "" {
			return nil, fmt.Sprintf("hover at %d:%d panicked: %s", pos[0], pos[1], p)
		}
		b.hover[pos] = r
		r, _, p = s.call("textDocument/definition", posParams(uri, pos[0], pos[1]))
		if p != "" {
			return nil, fmt.Sprintf("definition at %d:%d panicked: %s", pos[0], pos[1], p)
		}
		b.defn[pos] = r
	}
	return b, ""
}

// midBattery: between two notifications, symbols plus hover / definition at every position where a
// fresh analysis of the document's current text answers something, and at the position before it.
func midBattery(s *lspServer, model map[string]string, freshFor func(uri, text string) (*battery, string)) (string, string) {
	var us []string
	for u := range model {
		us = append(us, u)
	}
	sort.Strings(us)
	for _, uri := range us {
		text := model[uri]
		exp, e := freshFor(uri, text)
		if e != "" {
			return e, "C19.panic:fresh"
		}
		res, _, p := s.call("textDocument/documentSymbol", map[string]any{"textDocument": map[string]any{"uri": uri}})
		if p != "" {
			return "documentSymbol panicked: " + p, "C19.panic:query"
		}
		if canonSymbols(res) != exp.symbols {
			return "documentSymbol of " + uri + " differs from a fresh analysis of its latest text", "C19.symbols"
		}
		ps := positionsOf(text)
		for i, pos := range ps {
			interesting := exp.hover[pos] != "null" || exp.defn[pos] != "null" || (i+1 < len(ps) && (exp.hover[ps[i+1]] != "null" || exp.defn[ps[i+1]] != "null")) || i == 0
			if !interesting {
				continue
			}
			r, _, p := s.call("textDocument/hover", posParams(uri, pos[0], pos[1]))
			if p != "" {
				return "hover panicked: " + p, "C19.panic:query"
			}
			if r != exp.hover[pos] {
				return fmt.Sprintf("hover at %d:%d of %s differs from a fresh analysis of its latest text: got %s expected %s", pos[0], pos[1], uri, r, exp.hover[pos]), "C19.hover"
			}
			r, _, p = s.call("textDocument/definition", posParams(uri, pos[0], pos[1]))
			if p != "" {
				return "definition panicked: " + p, "C19.panic:query"
			}
			if r != exp.defn[pos] {
				return fmt.Sprintf("definition at %d:%d of %s differs from a fresh analysis of its latest text: got %s expected %s", pos[0], pos[1], uri, r, exp.defn[pos]), "C19.definition"
			}
		}
	}
	return "", ""
}

// crossBattery: for every pair of opened documents (A, B) and every position both texts have, the
// requests hover A, definition A, hover B, definition B, hover A, definition A in a row: an answer
// remembered by position alone (or by anything less than document + position) shows here.
func crossBattery(s *lspServer, uris []string, model map[string]string, freshFor func(uri, text string) (*battery, string)) (string, string, int) {
	n := 0
	for _, ua := range uris {
		ta, okA := model[ua]
		if !okA {
			continue
		}
		for _, ub := range uris {
			tb, okB := model[ub]
			if !okB || ua == ub {
				continue
			}
			ea, e1 := freshFor(ua, ta)
			eb, e2 := freshFor(ub, tb)
			if e1 != "" || e2 != "" {
				return e1 + e2, "C19.panic:fresh", n
			}
			for _, pos := range positionsOf(ta) {
				if _, both := eb.hover[pos]; !both {
					continue
				}
				seq := []struct {
					uri    string
					method string
					want   string
				}{
					{ua, "textDocument/hover", ea.hover[pos]}, {ua, "textDocument/definition", ea.defn[pos]},
					{ub, "textDocument/hover", eb.hover[pos]}, {ub, "textDocument/definition", eb.defn[pos]},
					{ua, "textDocument/hover", ea.hover[pos]}, {ua, "textDocument/definition", ea.defn[pos]},
				}
				for _, q := range seq {
					r, _, p := s.call(q.method, posParams(q.uri, pos[0], pos[1]))
					n++
					if p != "" {
						return q.method + " panicked: " + p, "C19.panic:query", n
					}
					if r != q.want {
						return fmt.Sprintf("%s at %d:%d of %s, asked right after the same position of another document, differs from a fresh analysis of its latest text: got %s expected %s", q.method, pos[0], pos[1], q.uri, r, q.want), "C19.cross-document", n
					}
				}
			}
		}
	}
	return "", "", n
}

func runC19(w *mc.Worker) {
	nURI, nText, full, depth := 2, 4, 3, 5
	if w.Tier == "thorough" {
		nURI, nText, full, depth = 3, 6, 4, 7
	}
	// URIs that differ only in ways a normalising store would conflate: letter case, an escaped
	// character, a trailing segment
	uris := []string{"file:///w/Fees.num", "file:///w/fees.num", "file:///w/fees%2Enum", "file:///w/fees.num/"}
	texts := c19Texts[:nText]
	var ops []c19Op
	for u := 0; u < nURI; u++ {
		for t := 0; t < nText; t++ {
			ops = append(ops, c19Op{u, t, false, false, false})
		}
	}
	// the multi-change variant, for one text per URI
	for u := 0; u < nURI; u++ {
		ops = append(ops, c19Op{u, 1, true, false, false})
		ops = append(ops, c19Op{u, 1, false, true, false}, c19Op{u, 0, false, true, false})
		ops = append(ops, c19Op{u, 0, false, false, true})
	}
	neverOpened := uris[3]

	fresh := map[string]*battery{} // text -> expected answers (URI-independent except for the URI echoed in definition)
	freshFor := func(uri, text string) (*battery, string) {
		k := uri + "\x00" + text
		if b, ok := fresh[k]; ok {
			return b, ""
		}
		s := newServer()
		out, p := s.open(uri, text)
		if p != "" {
			return nil, "a fresh server panicked on didOpen: " + p
		}
		b, bad := runBattery(s, uri, text)
		if bad != "" {
			return nil, "fresh server: " + bad
		}
		fr := frames(out)
		if len(fr) == 1 {
			b.diag = canonDiagnostics(fr[0])
		} else {
			b.diag = fmt.Sprintf("%d notifications", len(fr))
		}
		fresh[k] = b
		return b, ""
	}

	// checkHistory replays a history on a fresh real server and judges the last step + the reached state.
	checkHistoryP := func(space string, prefix, path []int) (stateKey string, ok bool) {
		recPath := append(append([]int{}, prefix...), path...)
		s := newServer()
		model := map[string]string{}
		var desc []string
		var lastOut, lastURI string
		midBad, midClause := "", ""
		for step, oi := range path {
			op := ops[oi]
			uri, text := uris[op.uri], texts[op.text]
			var out, p string
			if _, opened := model[uri]; opened && op.empty {
				_, p = s.change(uri)
				desc = append(desc, fmt.Sprintf("didChange(%s, [])", uri))
				if p != "" {
					w.WithPath(space, recPath, func() {
						w.Violation("C19.panic:notification", "the server panicked while handling a notification: "+p, len(path), Case{Script: strings.Join(desc, " ; ")})
					})
					return "", false
				}
				lastOut, lastURI = "", "" // nothing changed: whether diagnostics are published again is not judged
				continue
			}
			if _, opened := model[uri]; !opened {
				out, p = s.open(uri, text)
				desc = append(desc, fmt.Sprintf("didOpen(%s, T%d)", uri, op.text))
			} else if op.reopen {
				s.call("textDocument/didClose", map[string]any{"textDocument": map[string]any{"uri": uri}})
				out, p = s.open(uri, text)
				desc = append(desc, fmt.Sprintf("didClose(%s); didOpen(%s, T%d)", uri, uri, op.text))
			} else if op.multi {
				out, p = s.change(uri, texts[(op.text+1)%nText], text)
				desc = append(desc, fmt.Sprintf("didChange(%s, [T%d, T%d])", uri, (op.text+1)%nText, op.text))
			} else {
				out, p = s.change(uri, text)
				desc = append(desc, fmt.Sprintf("didChange(%s, T%d)", uri, op.text))
			}
			if p != "" {
				w.WithPath(space, recPath, func() {
					w.Violation("C19.panic:notification", "the server panicked while handling a notification: "+p, len(path), Case{Script: strings.Join(desc, " ; ")})
				})
				return "", false
			}
			model[uri] = text
			lastOut, lastURI = out, uri
			// queries BETWEEN notifications: an answer computed now must not survive the next change
			// (the full battery at the end of the history would see it)
			if step < len(path)-1 && midBad == "" {
				midBad, midClause = midBattery(s, model, freshFor)
				if midBad != "" {
					midBad = fmt.Sprintf("after step %d: %s", step+1, midBad)
				}
			}
		}
		var keys []string
		for u, t := range model {
			keys = append(keys, u+"="+strconv.Itoa(indexOf(texts, t)))
		}
		sort.Strings(keys)
		stateKey = strings.Join(keys, ",")
		bad := midBad
		clause := midClause
		// conformance: the server's own document map equals the model state
		impl, exported := s.st.VerifDocuments()
		if !exported {
			w.Count("document-store-not-exportable", 1)
			impl = model // the conformance clause cannot be evaluated on this tree; the behavioural clauses below still are
		}
		if len(impl) != len(model) && bad == "" {
			bad, clause = fmt.Sprintf("the server holds %d documents, the history opened %d", len(impl), len(model)), "C19.store"
		}
		for u, t := range model {
			if impl[u] != t && bad == "" {
				bad, clause = "the server's text for "+u+" is not the latest one sent", "C19.store"
			}
		}
		// the notification published by the last step
		if bad == "" && len(path) > 0 && lastURI != "" {
			exp, e := freshFor(lastURI, model[lastURI])
			if e != "" {
				bad, clause = e, "C19.panic:fresh"
			} else {
				fr := frames(lastOut)
				got := fmt.Sprintf("%d notifications", len(fr))
				if len(fr) == 1 {
					got = canonDiagnostics(fr[0])
				}
				if got != exp.diag {
					bad, clause = "published diagnostics differ from a fresh analysis of the latest text: got "+got+" expected "+exp.diag, "C19.diagnostics"
				}
			}
		}
		// the full query battery in the reached state
		queries := 0
		if bad == "" {
			for ui := 0; ui < nURI && bad == ""; ui++ {
				uri := uris[ui]
				text, opened := model[uri]
				if !opened {
					for _, q := range []string{"textDocument/hover", "textDocument/definition"} {
						r, _, p := s.call(q, posParams(uri, 1, 3))
						queries++
						if p != "" || r != "null" {
							bad, clause = q+" on a document that was never opened answered "+r+p, "C19.unopened"
						}
					}
					r, _, p := s.call("textDocument/documentSymbol", map[string]any{"textDocument": map[string]any{"uri": uri}})
					queries++
					if p != "" || r != "null" {
						bad, clause = "documentSymbol on a document that was never opened answered "+r+p, "C19.unopened"
					}
					continue
				}
				exp, e := freshFor(uri, text)
				if e != "" {
					bad, clause = e, "C19.panic:fresh"
					break
				}
				got, e := runBattery(s, uri, text)
				if e != "" {
					bad, clause = e, "C19.panic:query"
					break
				}
				queries += 1 + 2*len(got.hover)
				if got.symbols != exp.symbols {
					bad, clause = "documentSymbol of "+uri+" differs from a fresh analysis of its latest text: got "+got.symbols+" expected "+exp.symbols, "C19.symbols"
				}
				for pos, h := range got.hover {
					if h != exp.hover[pos] && bad == "" {
						bad, clause = fmt.Sprintf("hover at %d:%d of %s differs from a fresh analysis of its latest text: got %s expected %s", pos[0], pos[1], uri, h, exp.hover[pos]), "C19.hover"
					}
					if got.defn[pos] != exp.defn[pos] && bad == "" {
						bad, clause = fmt.Sprintf("definition at %d:%d of %s differs from a fresh analysis of its latest text: got %s expected %s", pos[0], pos[1], uri, got.defn[pos], exp.defn[pos]), "C19.definition"
					}
				}
			}
			// the same position asked of one document, then the other, then the first again
			if bad == "" && len(model) > 1 {
				var n int
				bad, clause, n = crossBattery(s, uris[:nURI], model, freshFor)
				queries += n
			}
			r, _, _ := s.call("textDocument/hover", posParams(neverOpened, 0, 0))
			queries++
			if r != "null" && bad == "" {
				bad, clause = "hover on a never-opened URI answered "+r, "C19.unopened"
			}
		}
		changed := len(path) > len(model)
		w.WithPath(space, recPath, func() {
			w.Eval(space+strings.Join(desc, ";"), changed || len(model) > 1, fmt.Sprintf("docs=%d changed=%v ok=%v", len(model), changed, bad == ""))
			w.Count("queries", int64(queries))
			if bad != "" {
				w.Violation(clause, bad, len(path), Case{Script: strings.Join(desc, " ; "), Extra: map[string]any{"texts": texts}})
			} else if changed {
				w.Sample(fmt.Sprintf("len%d-docs%d", len(path), len(model)), Case{Script: strings.Join(desc, " ; "), Observed: fmt.Sprintf("%d queries agree with fresh analyses", queries)})
			}
		})
		return stateKey, bad == ""
	}
	checkHistory := func(space string, path []int) (string, bool) { return checkHistoryP(space, nil, path) }

	// (a1) all histories up to `full`
	name := fmt.Sprintf("histories-U%d-T%d-H%d", nURI, nText, full)
	w.Stage(name, fmt.Sprintf("all notification histories of length <= %d over %d URIs x %d texts (+ multi-change, empty-change and close/reopen variants), full query battery in every reached state", full, nURI, nText), func() {
		space := name + "/hist"
		if path, ok := w.ReplayPath(space); ok {
			checkHistory(space, path)
			return
		}
		if w.IsReplay() {
			return
		}
		var rec func(path []int)
		rec = func(path []int) {
			if len(path) > 0 && w.Mine(fmt.Sprint(space, path)) {
				w.Owned()
				checkHistory(space, path)
				w.Touch()
			}
			if len(path) == full || w.Expired() {
				return
			}
			for oi := range ops {
				rec(append(append([]int{}, path...), oi))
			}
		}
		rec(nil)
	})
	// (a2) BFS deduplicated on the model state
	name2 := fmt.Sprintf("bfs-U%d-T%d-D%d", nURI, nText, depth)
	w.Stage(name2, fmt.Sprintf("breadth-first search to depth %d over the same operations, deduplicated on the model state uri -> text (which must equal the server's document map)", depth), func() {
		space := name2 + "/bfs"
		if path, ok := w.ReplayPath(space); ok {
			checkHistory(space, path)
			return
		}
		if w.IsReplay() || w.Rank != 0 {
			return
		}
		seen := map[string]bool{"": true}
		frontier := [][]int{{}}
		var states, transitions int64 = 1, 0
		for d := 1; d <= depth && len(frontier) > 0; d++ {
			var next [][]int
			for _, h := range frontier {
				for oi := range ops {
					if w.Expired() {
						return
					}
					path := append(append([]int{}, h...), oi)
					transitions++
					w.Owned()
					k, ok := checkHistory(space, path)
					w.Touch()
					if ok && !seen[k] {
						seen[k] = true
						states++
						next = append(next, path)
					}
				}
			}
			frontier = next
		}
		w.AddStates(states, transitions)
		w.Count("bfs-states", states)
		w.Count("bfs-transitions", transitions)
	})

	// (a3) near-identical texts: a change that only adds or removes blanks at either end, or that
	// replaces one character, must be analysed like any other (a server that keeps the old analysis
	// because "nothing changed" answers from a stale version)
	{
		b0 := "send [USD 1] (source = @a destination = @b) // done"
		b1 := "vars { account $s }\nsend [USD 1] (\n  source = $s"
		b2 := "vars { account $s }\nsend [USD 1] (source = $s destination = @b)"
		near := []string{b0, b0 + "\n", b0 + " ", b0 + "\n\n", b1, b1 + "\n", b1 + " ", b1 + "\n  ", b2, b2 + "\n", " " + b2, b2 + "\t",
			strings.ReplaceAll(b2, "$s", "$t"), strings.Replace(b2, "= $s", "= $t", 1), "\n" + b2}
		name3 := fmt.Sprintf("near-identical-texts-H%d", full)
		w.Stage(name3, fmt.Sprintf("all histories of length <= %d on one document over %d texts that differ from one another only by blanks / line ends at either end or by one character, with queries between the notifications and the full battery at the end", full, len(near)), func() {
			saveOps, saveTexts, saveN := ops, texts, nText
			defer func() { ops, texts, nText = saveOps, saveTexts, saveN }()
			texts, nText = near, len(near)
			ops = nil
			for t := range near {
				ops = append(ops, c19Op{0, t, false, false, false})
			}
			space := name3 + "/hist"
			if path, ok := w.ReplayPath(space); ok {
				checkHistory(space, path)
				return
			}
			if w.IsReplay() {
				return
			}
			var rec func(path []int)
			rec = func(path []int) {
				if len(path) > 0 && w.Mine(fmt.Sprint(space, path)) {
					w.Owned()
					checkHistory(space, path)
					w.Touch()
				}
				if len(path) == full || w.Expired() {
					return
				}
				for oi := range ops {
					rec(append(append([]int{}, path...), oi))
				}
			}
			rec(nil)
		})
	}

	// (a4) documents whose URIs a normalising store would conflate: every pair of nine spellings
	{
		conf := []string{"file:///w/pay.num", "file:///w/Pay.num", "file:///w/pay%2Enum", "file:///w/pay.num/", "git:/w/pay.num?ref=HEAD", "file:///w/pay.num#L1", "file://host/w/pay.num", "file:///w/./pay.num", "untitled:pay.num"}
		name4 := "confusable-uris-H2"
		w.Stage(name4, fmt.Sprintf("all histories of length <= 2 (open / change with two texts) on every pair of %d URIs that differ only in letter case, an escaped character, a trailing slash, scheme / query, fragment, authority, a dot segment: each document keeps its own text", len(conf)), func() {
			saveOps, saveURIs, saveN, saveNever := ops, uris, nURI, neverOpened
			defer func() { ops, uris, nURI, neverOpened = saveOps, saveURIs, saveN, saveNever }()
			nURI = 2
			neverOpened = "file:///w/never.num"
			ops = []c19Op{{0, 0, false, false, false}, {0, 1, false, false, false}, {1, 0, false, false, false}, {1, 1, false, false, false}}
			space := name4 + "/hist"
			pairOf := func(k int) []string {
				for i := 0; i < len(conf); i++ {
					for j := i + 1; j < len(conf); j++ {
						if k == 0 {
							return []string{conf[i], conf[j], "file:///w/other.num", neverOpened}
						}
						k--
					}
				}
				return nil
			}
			nPairs := len(conf) * (len(conf) - 1) / 2
			if path, ok := w.ReplayPath(space); ok && len(path) > 0 {
				uris = pairOf(path[0])
				checkHistoryP(space, path[:1], path[1:])
				return
			}
			if w.IsReplay() {
				return
			}
			for k := 0; k < nPairs; k++ {
				uris = pairOf(k)
				var rec func(path []int)
				rec = func(path []int) {
					if len(path) > 0 && w.Mine(fmt.Sprint(space, k, path)) {
						w.Owned()
						checkHistoryP(space, []int{k}, path)
						w.Touch()
					}
					if len(path) == 2 || w.Expired() {
						return
					}
					for oi := range ops {
						rec(append(append([]int{}, path...), oi))
					}
				}
				rec(nil)
			}
		})
	}

	// (b) navigation on generator scripts
	weight := 2
	if w.Tier == "thorough" {
		weight = 3
	}
	navStage := func(name string, weight int, layouts []int, what string) {
		w.Stage(name, fmt.Sprintf("variable-rich generator scripts of weight <= %d x %s x every position of every line: hover and definition against declarations and uses", weight, what), func() {
			g := &Full{MaxStmts: 2, Depth: 2, VarsFree: true, Unchecked: true}
			w.Outer(name+"/script", weight, func(o *mc.Explorer) {
				prog := g.Program(o)
				pr := gen.Print(prog)
				text := pr.Text()
				if !w.Mine(text) {
					return
				}
				w.Owned()
				w.Inner(0, func(in *mc.Explorer) {
					seps := navLayout(pr, layouts[in.Choose(len(layouts))])
					n := len(pr.Toks)
					ltext, starts, ends := pr.Render(seps)
					if lx := ref.Lex(ltext); len(lx.Toks) != n {
						w.Count("compact-layout-relexes-differently", 1)
						return
					}
					navCheck(w, prog, pr, ltext, starts, ends, uris[0])
				})
			})
		})
	}
	navStage(fmt.Sprintf("navigation-v%d", weight), weight, []int{0, 3, 4}, "the one-line layout, the compact layout (no blank between two tokens that still lex as themselves: touching tokens) and a layout where every variable token ends its line")
	// scoping: uses that must NOT resolve (a variable named in an origin before its declaration, or in
	// its own origin), duplicates, a duplicate whose origin names the variable it repeats
	w.Stage("navigation-scoping", "10 hand-built scripts about declaration order, self-reference, duplicates, unknown types and diagnostics over non-BMP text x 7 layouts x every position", func() {
		mk := func(typ, name string, origin *gen.Call) *gen.VarDecl {
			return &gen.VarDecl{Type: &gen.TypeName{Name: typ}, Name: gen.V(name), Origin: origin}
		}
		call := func(fn string, args ...gen.Expr) *gen.Call { return &gen.Call{Name: fn, Args: args} }
		send := func(src gen.Expr, amt gen.Expr) gen.Stmt {
			return &gen.Send{Sent: &gen.SentLit{E: amt}, Src: &gen.SrcAccount{E: src}, Dst: da("x")}
		}
		progs := []*gen.Program{
			{Vars: []*gen.VarDecl{mk("monetary", "b", call("balance", gen.V("acc"), gen.Asset("USD"))), mk("account", "acc", nil)}, Stmts: []gen.Stmt{send(gen.V("acc"), gen.V("b"))}},
			{Vars: []*gen.VarDecl{mk("account", "acc", nil), mk("monetary", "b", call("balance", gen.V("acc"), gen.Asset("USD")))}, Stmts: []gen.Stmt{send(gen.V("acc"), gen.V("b"))}},
			{Vars: []*gen.VarDecl{mk("account", "s", call("meta", gen.V("s"), gen.Str("next")))}, Stmts: []gen.Stmt{send(gen.V("s"), gen.Mon("USD", "1"))}},
			{Vars: []*gen.VarDecl{mk("account", "a", nil), mk("account", "a", call("meta", gen.V("a"), gen.Str("next")))}, Stmts: []gen.Stmt{send(gen.V("a"), gen.Mon("USD", "1"))}},
			{Vars: []*gen.VarDecl{mk("account", "a", nil), mk("number", "a", nil)}, Stmts: []gen.Stmt{send(gen.V("a"), gen.Mon("USD", "1"))}},
			{Vars: []*gen.VarDecl{mk("account", "a", call("meta", gen.V("z"), gen.Str("k"))), mk("account", "z", nil), mk("account", "y", call("meta", gen.V("a"), gen.Str("k")))}, Stmts: []gen.Stmt{send(gen.V("y"), gen.Mon("USD", "1")), send(gen.V("z"), gen.Mon("USD", "2"))}},
			{Vars: []*gen.VarDecl{mk("account", "a", nil)}, Stmts: []gen.Stmt{send(gen.V("a"), gen.Mon("USD", "1")), send(gen.V("nope"), gen.Mon("USD", "1")), &gen.Call{Name: "set_tx_meta", Args: []gen.Expr{gen.Str("😀 𐐀"), gen.V("a")}}}},
			{Vars: []*gen.VarDecl{mk("account", "ab", nil), mk("account", "a", nil)}, Stmts: []gen.Stmt{&gen.Send{Sent: &gen.SentLit{E: gen.Mon("USD", "1")}, Src: lst(&gen.SrcAccount{E: gen.V("a")}, &gen.SrcAccount{E: gen.V("ab")}), Dst: da("x")}}},
		}
		progs = append(progs,
			// diagnostics whose own range holds characters outside the BMP (a bad arity over a whole call, a type mismatch on a string)
			&gen.Program{Vars: []*gen.VarDecl{mk("account", "a", nil)}, Stmts: []gen.Stmt{&gen.Call{Name: "set_tx_meta", Args: []gen.Expr{gen.Str("😀 𐐀")}}, send(gen.V("a"), gen.Str("😀 x"))}},
			// a declaration with a type that does not exist: its uses still are uses of that variable
			&gen.Program{Vars: []*gen.VarDecl{mk("acount", "d", nil), mk("monetary", "m", nil)}, Stmts: []gen.Stmt{send(gen.V("d"), gen.V("m"))}},
		)
		for _, p := range progs {
			p.HasVars = true
		}
		w.Outer("navigation-scoping/script", 0, func(o *mc.Explorer) {
			pi := o.Choose(len(progs))
			lay := o.Choose(7)
			if !w.Mine(fmt.Sprint("scoping", pi, lay)) {
				return
			}
			w.Owned()
			prog := progs[pi]
			pr := gen.Print(prog)
			w.Inner(0, func(in *mc.Explorer) {
				seps := navLayout(pr, lay)
				ltext, starts, ends := pr.Render(seps)
				if lx := ref.Lex(ltext); len(lx.Toks) != len(pr.Toks) {
					return
				}
				navCheck(w, prog, pr, ltext, starts, ends, uris[0])
			})
		})
	})
	navStage(fmt.Sprintf("navigation-layouts-v%d", weight-1), weight-1, []int{1, 2, 5, 6}, "4 layouts with one token per line (indentation falling / rising, so that earlier tokens start right / left of later ones; lines ending in CR LF; lines ending in a lone CR)")
}

// navLayout: the separators of one of the navigation layouts (0 one line, 1 / 2 one token per line with
// falling / rising indentation, 3 compact, 4 a line break after every variable token).
func navLayout(pr *gen.Printed, layout int) []string {
	seps := pr.DefaultSeps()
	n := len(pr.Toks)
	switch layout {
	case 1: // one token per line, indentation falling 4,2,0,4,2,0,...
		for i := 0; i < n; i++ {
			seps[i] = "\n" + strings.Repeat(" ", 2*((n-1-i)%3))
		}
		if n > 0 {
			seps[0] = seps[0][1:]
		}
	case 3: // compact: no blank wherever the two neighbours still lex as themselves (touching tokens)
		for i := 1; i < n; i++ {
			if lx := ref.Lex(pr.Toks[i-1] + pr.Toks[i]); len(lx.Toks) == 2 && lx.Toks[0].Text == pr.Toks[i-1] && lx.Toks[1].Text == pr.Toks[i] && !lx.Err && !lx.Unmodelled {
				seps[i] = ""
			}
		}
	case 4: // a line break after every variable token: each use ends its line
		for i := 1; i < n; i++ {
			if strings.HasPrefix(pr.Toks[i-1], "$") {
				seps[i] = "\n"
			}
		}
	case 5, 6: // one token per line ending in CR LF (5) or in a lone CR (6), indentation rising
		eol := "\r\n"
		if layout == 6 {
			eol = "\r"
		}
		for i := 1; i < n; i++ {
			seps[i] = eol + strings.Repeat(" ", 2*(i%3))
		}
		seps[n] = eol
		return seps
	case 2: // one token per line, indentation rising 0,2,4,0,2,4,...
		for i := 1; i < n; i++ {
			seps[i] = "\n" + strings.Repeat(" ", 2*(i%3))
		}
	}
	seps[n] = "\n"
	return seps
}

func indexOf(xs []string, x string) int {
	for i, y := range xs {
		if y == x {
			return i
		}
	}
	return -1
}

type hoverResp struct {
	Contents struct {
		Kind  string `json:"kind"`
		Value string `json:"value"`
	} `json:"contents"`
	Range *lspRange `json:"range"`
}
type lspPos struct {
	Line      int `json:"line"`
	Character int `json:"character"`
}
type lspRange struct {
	Start lspPos `json:"start"`
	End   lspPos `json:"end"`
}
type locResp struct {
	URI   string   `json:"uri"`
	Range lspRange `json:"range"`
}

var builtinContext = map[string]string{"set_tx_meta": "stmt", "set_account_meta": "stmt", "meta": "origin", "balance": "origin", "overdraft": "origin"}

func navCheck(w *mc.Worker, prog *gen.Program, pr *gen.Printed, text string, starts, ends []gen.Pos, uri string) {
	s := newServer()
	opened, p := s.open(uri, text)
	if p != "" {
		w.Eval(text, true, "open-panic")
		w.Violation("C19.panic:notification", "the server panicked on didOpen: "+p, len(text), Case{Script: text})
		return
	}
	// the published diagnostics against the analysis called directly: same set of (range in UTF-16
	// units, severity, message)
	if msg := diagnosticsMismatch(opened, uri, text); msg != "" {
		w.Violation("C19.diagnostics:direct", msg, len(text), Case{Script: text})
	}
	// expected token classes (single line layout)
	type tokInfo struct {
		kind     string // "var" | "builtin"
		name     string
		typ      string
		declSpan [2]int // token start/end of the declaration name
	}
	info := map[int]tokInfo{} // token index -> info
	declared := map[string]*gen.VarDecl{}
	declTok := map[*gen.Var]int{}
	useTok := map[*gen.Var]int{}
	for _, sp := range pr.Spans {
		switch sp.Kind {
		case "VarName":
			declTok[sp.Node.(*gen.Var)] = sp.First
		case "Variable":
			useTok[sp.Node.(*gen.Var)] = sp.First
		case "FnCaller":
			c := sp.Node.(*gen.Call)
			ctx := "stmt"
			for _, d := range prog.Vars {
				if d.Origin == c {
					ctx = "origin"
				}
			}
			if builtinContext[c.Name] == ctx {
				info[sp.First] = tokInfo{kind: "builtin", name: c.Name}
			}
		}
	}
	uses := collectUses(prog)
	ui := 0
	resolve := func(u varUse) {
		if d, ok := declared[u.v.Name]; ok {
			info[useTok[u.v]] = tokInfo{kind: "var", name: u.v.Name, typ: d.Type.Name, declSpan: [2]int{declTok[d.Name], declTok[d.Name]}}
		}
	}
	for i, d := range prog.Vars {
		for ui < len(uses) && uses[ui].inDecl == i {
			resolve(uses[ui]) // an origin sees the earlier declarations only
			ui++
		}
		if _, dup := declared[d.Name.Name]; !dup {
			declared[d.Name.Name] = d
		}
	}
	for ; ui < len(uses); ui++ {
		resolve(uses[ui])
	}
	nVarUses := 0
	for _, ti := range info {
		if ti.kind == "var" {
			nVarUses++
		}
	}
	bad, clause := "", ""
	// LSP positions: lines end at \r\n, \n or a lone \r; characters count UTF-16 code units (the
	// protocol's default encoding; the server announces no other). The printer's positions (lines
	// ending at \n, characters) are converted through offsets into the text.
	lines, conv := lspModel(text)
	units := func(p gen.Pos) gen.Pos {
		l, c := conv(p.Line, p.Char)
		return gen.Pos{Line: l, Char: c}
	}
	starts, ends = append([]gen.Pos{}, starts...), append([]gen.Pos{}, ends...)
	for i := range starts {
		starts[i], ends[i] = units(starts[i]), units(ends[i])
	}
	npos := 0
	for ln := 0; ln < len(lines) && bad == ""; ln++ {
		for ch := 0; ch <= len(utf16.Encode([]rune(lines[ln])))+1 && bad == ""; ch++ {
			npos++
			// which token (if any) contains ch strictly / at its end; a character beyond the end of the
			// line may be read as the end of the line (the protocol says it "defaults back to the line length")
			eff := ch
			if n16 := len(utf16.Encode([]rune(lines[ln]))); eff > n16 {
				eff = n16
			}
			inside, atEnd := -1, -1
			for ti := range pr.Toks {
				if starts[ti].Line != ln {
					continue
				}
				if starts[ti].Char <= ch && ch < ends[ti].Char {
					inside = ti
				}
				if eff == ends[ti].Char {
					atEnd = ti
				}
			}
			hv, _, p1 := s.call("textDocument/hover", posParams(uri, ln, ch))
			df, _, p2 := s.call("textDocument/definition", posParams(uri, ln, ch))
			if p1 != "" || p2 != "" {
				bad, clause = fmt.Sprintf("hover/definition at %d:%d panicked: %s%s", ln, ch, p1, p2), "C19.panic:query"
				break
			}
			expectTok := func(ti int) (string, bool) {
				// returns a complaint if the answers are not those for token ti
				tinfo, ok := info[ti]
				if !ok {
					if hv != "null" || df != "null" {
						return fmt.Sprintf("position %d:%d is not on a variable use or builtin name, yet hover=%s definition=%s", ln, ch, hv, df), false
					}
					return "", true
				}
				var h hoverResp
				if err := json.Unmarshal([]byte(hv), &h); err != nil || hv == "null" || h.Range == nil {
					return fmt.Sprintf("position %d:%d is inside `%s` but hover answered %s", ln, ch, pr.Toks[ti], hv), false
				}
				if h.Range.Start.Character != starts[ti].Char || h.Range.End.Character != ends[ti].Char || h.Range.Start.Line != ln || h.Range.End.Line != ln {
					return fmt.Sprintf("hover at %d:%d covers %d-%d, the token `%s` spans %d-%d", ln, ch, h.Range.Start.Character, h.Range.End.Character, pr.Toks[ti], starts[ti].Char, ends[ti].Char), false
				}
				if tinfo.kind == "builtin" {
					if !strings.Contains(h.Contents.Value, tinfo.name+"(") {
						return fmt.Sprintf("hover on builtin `%s` shows %q", tinfo.name, h.Contents.Value), false
					}
					if df != "null" {
						return fmt.Sprintf("definition on builtin `%s` answered %s", tinfo.name, df), false
					}
					return "", true
				}
				if !strings.Contains(h.Contents.Value, "$"+tinfo.name+": "+tinfo.typ) {
					return fmt.Sprintf("hover on $%s (declared %s) shows %q", tinfo.name, tinfo.typ, h.Contents.Value), false
				}
				var l locResp
				if err := json.Unmarshal([]byte(df), &l); err != nil || df == "null" {
					return fmt.Sprintf("definition of $%s answered %s", tinfo.name, df), false
				}
				dt := tinfo.declSpan[0]
				if l.URI != uri || l.Range.Start.Character != starts[dt].Char || l.Range.End.Character != ends[dt].Char || l.Range.Start.Line != starts[dt].Line || l.Range.End.Line != starts[dt].Line {
					return fmt.Sprintf("definition of $%s points to %d:%d-%d, its declaration is at %d:%d-%d", tinfo.name, l.Range.Start.Line, l.Range.Start.Character, l.Range.End.Character, starts[dt].Line, starts[dt].Char, ends[dt].Char), false
				}
				return "", true
			}
			_, insideNavigable := info[inside]
			switch {
			case inside >= 0 && !insideNavigable && atEnd >= 0:
				// touching tokens: the position starts a token that is neither a variable use nor a builtin
				// name and ends the previous token, which may answer (end position) or not
				if msg, ok := expectTok(atEnd); !ok {
					if hv != "null" || df != "null" {
						bad, clause = msg, "C19.navigation"
					}
				}
			case inside >= 0:
				msg, ok := expectTok(inside)
				// (when two navigable tokens touch, the shared position belongs to the one it starts)
				if !ok {
					bad, clause = msg, "C19.navigation"
				}
			case atEnd >= 0:
				// a token's end position may answer as the token or as nothing
				if msg, ok := expectTok(atEnd); !ok {
					if hv != "null" || df != "null" {
						bad, clause = msg, "C19.navigation"
					}
				}
			default:
				if hv != "null" || df != "null" {
					bad, clause = fmt.Sprintf("position %d:%d is between tokens, yet hover=%s definition=%s", ln, ch, hv, df), "C19.navigation"
				}
			}
		}
	}
	// positions outside the text: lines past the end, a column far past the end of the first line
	for _, q := range [][2]int{{len(lines) + 2, 0}, {len(lines) + 2, 7}, {0, 1 << 20}, {1 << 20, 1 << 20}} {
		if bad != "" {
			break
		}
		hv, _, p1 := s.call("textDocument/hover", posParams(uri, q[0], q[1]))
		df, _, p2 := s.call("textDocument/definition", posParams(uri, q[0], q[1]))
		npos++
		if p1 != "" || p2 != "" {
			bad, clause = fmt.Sprintf("hover/definition at %d:%d (outside the text) panicked: %s%s", q[0], q[1], p1, p2), "C19.panic:query"
		} else if hv != "null" || df != "null" {
			bad, clause = fmt.Sprintf("position %d:%d is outside the text, yet hover=%s definition=%s", q[0], q[1], hv, df), "C19.navigation"
		}
	}
	w.Eval(text, nVarUses > 0, fmt.Sprintf("varuses>0=%v ok=%v", nVarUses > 0, bad == ""))
	if bad != "" {
		w.Violation(clause, bad, len(text), Case{Script: text})
	} else if nVarUses > 0 {
		w.Sample(fmt.Sprintf("uses%d", nVarUses%4), Case{Script: text, Observed: fmt.Sprintf("%d positions agree", npos)})
	}
}

var _ = bytes.NewReader
