package props

import (
	"fmt"
	"math/big"
	"regexp"
	"strings"
	"time"

	"github.com/formancehq/numscript/internal/interpreter"
	"github.com/formancehq/numscript/internal/verifmc/env"
	"github.com/formancehq/numscript/internal/verifmc/gen"
	"github.com/formancehq/numscript/internal/verifmc/mc"
	"github.com/formancehq/numscript/internal/verifmc/ref"
)

// C12 Execution never panics and fails atomically with a typed error — deviation-bounded
// exploration plus fault enumeration at every store call.

func init() {
	mc.Register(&mc.Property{
		ID:    "C12",
		Title: "Never panics; fails atomically with a typed error",
		Rule: "well-typed, funded base scripts covering every construct and variables of all six types, with at most D deviations in total among: (i) replacing any expression position by a literal of any type / an undeclared variable / the portion 1/0, any allotment position by 1/0 or a wrongly typed or undeclared variable; (ii) dropping or retyping a declaration, changing a call's arity, unknown or misplaced function; (iii) any variable given a value from its per-type alphabet of malformed / negative / huge / wrongly-assetted strings, or left missing; (iv) poor / negative / huge balance sheets, missing or ill-typed metadata; and, for EVERY such execution with N store calls, N more executions with the store failing at call k = 1..N; " +
			"oracle: no panic; error => zero result; with <= 1 deviation the error's type is the one the reference semantics derives from that deviation (every expression of the script is evaluated, also in a destination clause that receives nothing); a fault at call k => an error whose message contains store-fault-k and a zero result; " +
			"non-trivial = the execution ended in an error or made >= 1 store call; distinct = script text + inputs + fault index",
		Assumptions: []string{"only scripts that parse without errors are in scope; edited scripts that do not parse are counted and skipped", "with 2 deviations only no-panic / atomicity / fault clauses are judged (two causes may be reported in either order)"},
		QuickBudget: 240 * time.Second,
		ThoroBudget: 12 * time.Minute,
		Run:         runC12,
	})
}

type c12Base struct {
	Name string
	Mk   func() *gen.Program
	Meta []string // metadata slots "acct.key" the base reads, with their good value
	Good map[string]string
}

func decl(typ, name string) *gen.VarDecl {
	return &gen.VarDecl{Type: &gen.TypeName{Name: typ}, Name: gen.V(name)}
}

func c12Bases() []c12Base {
	U := "USD"
	v := func(n string) gen.Expr { return gen.V(n) }
	return []c12Base{
		{"plain", func() *gen.Program {
			return &gen.Program{Vars: []*gen.VarDecl{decl("monetary", "amt"), decl("account", "src"), decl("account", "dst")},
				Stmts: []gen.Stmt{&gen.Send{Sent: &gen.SentLit{E: v("amt")}, Src: &gen.SrcAccount{E: v("src")}, Dst: &gen.DstAccount{E: v("dst")}}}}
		}, nil, map[string]string{"amt": "USD 4", "src": "a", "dst": "x"}},
		{"allot-cap", func() *gen.Program {
			return &gen.Program{Vars: []*gen.VarDecl{decl("portion", "p"), decl("monetary", "cap")},
				Stmts: []gen.Stmt{sendN(U, "6",
					&gen.SrcAllot{Items: []*gen.SrcAllotItem{{A: gen.V("p"), From: sa("a")}, {A: &gen.Remaining{}, From: sa("b")}}},
					&gen.DstInorder{Clauses: []*gen.DstClause{{Cap: v("cap"), To: &gen.To{D: da("x")}}}, Remaining: &gen.Kept{}})}}
		}, nil, map[string]string{"p": "1/2", "cap": "USD 4"}},
		{"scalars", func() *gen.Program {
			return &gen.Program{Vars: []*gen.VarDecl{decl("number", "n"), decl("string", "s"), decl("asset", "as")},
				Stmts: []gen.Stmt{
					&gen.Send{Sent: &gen.SentLit{E: &gen.MonLit{Asset: v("as"), Amt: v("n")}}, Src: sa("a"), Dst: da("x")},
					&gen.Call{Name: "set_tx_meta", Args: []gen.Expr{v("s"), &gen.Infix{Op: "+", L: v("n"), R: gen.Num("1")}}},
				}}
		}, nil, map[string]string{"n": "5", "s": "k", "as": "USD"}},
		{"origins", func() *gen.Program {
			return &gen.Program{Vars: []*gen.VarDecl{
				originDecl("monetary", "m", "balance", gen.Acct("a"), gen.Asset(U)),
				originDecl("account", "v", "meta", gen.Acct("b"), gen.Str("acc"))},
				Stmts: []gen.Stmt{
					&gen.Send{Sent: &gen.SentLit{E: v("m")}, Src: lst(&gen.SrcAccount{E: v("v")}, sa("a")), Dst: da("x")},
					saveN(U, "1", "a"),
					sendN("EUR", "1", sa("a"), da("x"))}} // a second asset of an account whose first asset is already known
		}, []string{"b.acc"}, map[string]string{"b.acc": "b"}},
		{"meta-typed", func() *gen.Program {
			return &gen.Program{Vars: []*gen.VarDecl{
				originDecl("number", "k", "meta", gen.Acct("b"), gen.Str("n")),
				originDecl("portion", "q", "meta", gen.Acct("b"), gen.Str("p")),
				originDecl("monetary", "o", "overdraft", gen.Acct("a"), gen.Asset(U))},
				Stmts: []gen.Stmt{
					&gen.Send{Sent: &gen.SentLit{E: &gen.MonLit{Asset: gen.Asset(U), Amt: v("k")}},
						Src: &gen.SrcOverdraft{Addr: gen.Acct("a"), Bounded: v("o")},
						Dst: &gen.DstAllot{Items: []*gen.DstAllotItem{{A: gen.V("q"), To: &gen.To{D: da("x")}}, {A: &gen.Remaining{}, To: &gen.To{D: da("y")}}}}},
					&gen.Call{Name: "set_account_meta", Args: []gen.Expr{gen.Acct("x"), gen.Str("k"), v("q")}}}}
		}, []string{"b.n", "b.p"}, map[string]string{"b.n": "3", "b.p": "1/3"}},
		{"sendall", func() *gen.Program {
			return &gen.Program{Stmts: []gen.Stmt{
				sendAllS(U, lst(sa("a"), &gen.SrcCapped{Cap: gen.Mon(U, "2"), From: sa("b")}, &gen.SrcOverdraft{Addr: gen.Acct("b"), Bounded: gen.Mon(U, "3")}), da("x")),
				&gen.Call{Name: "set_tx_meta", Args: []gen.Expr{gen.Str("k"), &gen.Infix{Op: "-", L: gen.Num("1"), R: gen.Num("3")}}}}}
		}, nil, map[string]string{}},
		{"meta-six", func() *gen.Program {
			return &gen.Program{Vars: []*gen.VarDecl{decl("number", "n"), decl("monetary", "amt"), decl("portion", "p"), decl("string", "s"), decl("account", "src"), decl("asset", "as")},
				Stmts: []gen.Stmt{
					&gen.Call{Name: "set_tx_meta", Args: []gen.Expr{gen.Str("n"), v("n")}},
					&gen.Call{Name: "set_tx_meta", Args: []gen.Expr{gen.Str("m"), v("amt")}},
					&gen.Call{Name: "set_account_meta", Args: []gen.Expr{v("src"), gen.Str("p"), v("p")}},
					&gen.Call{Name: "set_tx_meta", Args: []gen.Expr{v("s"), v("as")}},
					&gen.Call{Name: "set_account_meta", Args: []gen.Expr{v("src"), gen.Str("n"), v("n")}},
				}}
		}, nil, map[string]string{"n": "5", "amt": "USD 4", "p": "1/2", "s": "k", "src": "a", "as": "USD"}},
		{"save-vars", func() *gen.Program {
			return &gen.Program{Vars: []*gen.VarDecl{decl("monetary", "amt"), decl("account", "src")},
				Stmts: []gen.Stmt{&gen.Save{Sent: &gen.SentLit{E: v("amt")}, Acct: v("src")}, sendN(U, "1", sa("a"), da("x"))}}
		}, nil, map[string]string{"amt": "USD 2", "src": "a"}},
		{"save-world", func() *gen.Program {
			return &gen.Program{Vars: []*gen.VarDecl{decl("monetary", "amt")},
				Stmts: []gen.Stmt{&gen.Save{Sent: &gen.SentLit{E: v("amt")}, Acct: gen.Acct("world")}, sendN(U, "1", sa("a"), da("x"))}}
		}, nil, map[string]string{"amt": "USD 2"}},
		{"ordered-caps", func() *gen.Program {
			// the first member covers the amount: the later ones give nothing but are still evaluated
			return &gen.Program{Stmts: []gen.Stmt{sendN(U, "6",
				lst(sa("a"), &gen.SrcCapped{Cap: gen.Mon(U, "4"), From: sa("b")}, &gen.SrcOverdraft{Addr: gen.Acct("b"), Bounded: gen.Mon(U, "3")},
					&gen.SrcAllot{Items: []*gen.SrcAllotItem{{A: gen.Port("1/2"), From: sa("b")}, {A: &gen.Remaining{}, From: sa("a")}}}),
				da("x"))}}
		}, nil, map[string]string{}},
		{"ordered-dest-caps", func() *gen.Program {
			// the first clause takes everything: the later ones receive nothing but are still evaluated
			return &gen.Program{Vars: []*gen.VarDecl{decl("monetary", "cap"), decl("account", "dst")}, Stmts: []gen.Stmt{sendN(U, "3", sa("world"),
				&gen.DstInorder{Clauses: []*gen.DstClause{
					{Cap: gen.Mon(U, "5"), To: &gen.To{D: da("x")}},
					{Cap: v("cap"), To: &gen.To{D: &gen.DstAllot{Items: []*gen.DstAllotItem{{A: gen.Port("1/2"), To: &gen.To{D: da("y")}}, {A: &gen.Remaining{}, To: &gen.To{D: &gen.DstAccount{E: v("dst")}}}}}}},
					{Cap: gen.Mon(U, "1"), To: &gen.Kept{}}},
					Remaining: &gen.To{D: da("a")}})}}
		}, nil, map[string]string{"cap": "USD 2", "dst": "z"}},
		{"infix-sub", func() *gen.Program {
			return &gen.Program{Vars: []*gen.VarDecl{decl("monetary", "amt")},
				Stmts: []gen.Stmt{&gen.Send{Sent: &gen.SentLit{E: &gen.Infix{Op: "-", L: v("amt"), R: gen.Mon(U, "1")}},
					Src: &gen.SrcOverdraft{Addr: gen.Acct("a")}, Dst: da("x")}}}
		}, nil, map[string]string{"amt": "USD 4"}},
		{"infix-mon", func() *gen.Program {
			return &gen.Program{Vars: []*gen.VarDecl{decl("monetary", "amt")},
				Stmts: []gen.Stmt{&gen.Send{Sent: &gen.SentLit{E: &gen.Infix{Op: "+", L: v("amt"), R: gen.Mon(U, "2")}},
					Src: &gen.SrcOverdraft{Addr: gen.Acct("a")}, Dst: da("x")}}}
		}, nil, map[string]string{"amt": "USD 4"}},
	}
}

var c12Values = map[string][]string{
	"monetary": {"", "USD", "USD 10 20", "USD x", "USD -5", "EUR 4", "USD 18446744073709551617", " USD 4", "USD  4", "USD 4.5", "USD 18446744073709551616", "USD 9223372036854775808", "US\"D 10", "EU\\R 10", "A\\u0042 10", "USD 010", "USD 0x10", "USD 1_0", "USD +4"},
	"account":  {"", "world", "a:b", "@a", "<kept>", "a b", "zz", "a:b^c", "a:b`c", "a:[b]", "a:b\\c", "a^b"},
	"portion":  {"", "1/0", "0/0", "150%", "3/2", "-1/2", "abc", "50%", "0.5", "1/2/3", "18446744073709551617/36893488147419103234", "0%", "100%", "1 / 3",
		// every number of fractional digits around the places where 10^(2+q) leaves a machine word
		"50.0000000%", "50.00000000%", "50.0000000000000000%", "50.00000000000000000%", "50.000000000000000000%", "50.0000000000000000000%", "12.345678901234567890123%", "5000000000000000000/10000000000000000000"},
	"number":   {"", "abc", "-3", "18446744073709551617", "1.5", "0x10", "1_000", "+7", "0", "9223372036854775808", "18446744073709551615", "18446744073709551616", "-9223372036854775809"},
	"string":   {"", "héllo \"q\"", "k k", "15% of gross", "100%d %s %v", "a\\nb"},
	"asset":    {"", "usd", "EUR", "A\"B", "A\\"},
}

var c12AccountRe = regexp.MustCompile(`^[a-zA-Z0-9_-]+(:[a-zA-Z0-9_-]+)*$`)

func c12Replacements() []func() gen.Expr {
	return []func() gen.Expr{
		func() gen.Expr { return gen.Acct("zz") },
		func() gen.Expr { return gen.Mon("USD", "1") },
		func() gen.Expr { return gen.Asset("EUR") },
		func() gen.Expr { return gen.Num("7") },
		func() gen.Expr { return gen.Str("str") },
		func() gen.Expr { return gen.Port("1/2") },
		func() gen.Expr { return gen.V("undeclared") },
		func() gen.Expr { return gen.Port("1/0") },
		func() gen.Expr { return gen.Mon("EUR", "1") },
		func() gen.Expr { return gen.Num("-1") },
	}
}

// applyEdit applies one outer-level deviation chosen by o; returns a description, whether the
// edit sits in a destination position, and false if this alternative does not exist.
func c12Edit(o *mc.Explorer, prog *gen.Program) (string, bool, bool) {
	slots, aslots := gen.Slots(prog)
	reps := c12Replacements()
	kind := o.Choose(6)
	switch kind {
	case 0: // expression slot
		if len(slots) == 0 {
			return "", false, false
		}
		s := slots[o.Choose(len(slots))]
		r := o.Choose(len(reps))
		s.Set(reps[r]())
		return fmt.Sprintf("replace %s", s.Path), s.InDst, true
	case 1: // allotment slot
		if len(aslots) == 0 {
			return "", false, false
		}
		s := aslots[o.Choose(len(aslots))]
		alts := []gen.Allot{gen.Port("1/0"), gen.V("undeclared"), gen.Port("3/2"), &gen.Remaining{}}
		for _, d := range prog.Vars {
			if d.Type.Name != "portion" {
				alts = append(alts, gen.V(d.Name.Name))
				break
			}
		}
		s.Set(alts[o.Choose(len(alts))])
		return "allot " + s.Path, strings.Contains(s.Path, ".dst"), true
	case 2: // drop a declaration
		if len(prog.Vars) == 0 {
			return "", false, false
		}
		i := o.Choose(len(prog.Vars))
		prog.Vars = append(append([]*gen.VarDecl{}, prog.Vars[:i]...), prog.Vars[i+1:]...)
		return "drop-decl", false, true
	case 3: // retype a declaration
		if len(prog.Vars) == 0 {
			return "", false, false
		}
		i := o.Choose(len(prog.Vars))
		types := []string{"monetary", "account", "portion", "asset", "number", "string", "foo"}
		t := types[o.Choose(len(types))]
		if t == prog.Vars[i].Type.Name {
			return "", false, false
		}
		prog.Vars[i].Type = &gen.TypeName{Name: t}
		return "retype-decl", false, true
	case 4, 5: // arity / function name of a call
		var calls []*gen.Call
		var isOrigin []bool
		for _, d := range prog.Vars {
			if d.Origin != nil {
				calls = append(calls, d.Origin)
				isOrigin = append(isOrigin, true)
			}
		}
		for _, s := range prog.Stmts {
			if c, ok := s.(*gen.Call); ok {
				calls = append(calls, c)
				isOrigin = append(isOrigin, false)
			}
		}
		if len(calls) == 0 {
			return "", false, false
		}
		ci := o.Choose(len(calls))
		c := calls[ci]
		if kind == 4 {
			switch o.Choose(3) {
			case 0:
				if len(c.Args) == 0 {
					return "", false, false
				}
				c.Args = c.Args[:len(c.Args)-1]
				return "drop-arg", false, true
			case 1:
				c.Args = append(c.Args, gen.Num("9"))
				return "extra-arg", false, true
			default:
				c.Args = nil
				return "no-args", false, true
			}
		}
		names := []string{"foo", "meta", "set_tx_meta", "balance"}
		nn := names[o.Choose(len(names))]
		if nn == c.Name {
			return "", false, false
		}
		c.Name = nn
		return "rename-call", false, true
	}
	return "", false, false
}

func runC12(w *mc.Worker) {
	total := 2
	if w.Tier == "thorough" {
		total = 3
	}
	bases := c12Bases()
	flagsOn := map[string]struct{}{interpreter.ExperimentalOverdraftFunctionFeatureFlag: {}}
	sheets := []struct {
		name string
		a, b *big.Int
	}{{"rich", bi(10), bi(10)}, {"poor", bi(0), bi(0)}, {"negative", bi(-3), bi(10)}, {"huge", H, H}}
	name := fmt.Sprintf("dev%d", total)
	w.Stage(name, fmt.Sprintf("12 base scripts, at most %d deviation(s) in total (expression/allotment/declaration/call edits, variable values, sheets, metadata), every store call failed in turn", total), func() {
		w.Outer(name+"/c12", total, func(o *mc.Explorer) {
			b := bases[o.Choose(len(bases))]
			prog := b.Mk()
			nEdits := 0
			inDstOnly := true
			var descs []string
			for i := 0; i < total; i++ {
				if o.ChooseW(2, []int{0, 1}) == 0 {
					break
				}
				d, inDst, ok := c12Edit(o, prog)
				if !ok {
					return
				}
				nEdits++
				inDstOnly = inDstOnly && inDst
				descs = append(descs, d)
			}
			text := gen.Text(prog)
			if !w.Mine(text) {
				return
			}
			pr, ok := parseQuiet(text)
			if !ok {
				w.Count("edited-script-does-not-parse", 1)
				return
			}
			w.Owned()
			// declared variables without origin, in declaration order
			type pv struct{ name, typ string }
			var plain []pv
			for _, d := range prog.Vars {
				if d.Origin == nil {
					plain = append(plain, pv{d.Name.Name, varTypeOfBase(b, d.Name.Name, d.Type.Name)})
				}
			}
			w.Inner(total-nEdits, func(in *mc.Explorer) {
				dev := nEdits
				vars := map[string]string{}
				for _, p := range plain {
					good, has := b.Good[p.name]
					alts := c12Values[p.typ]
					costs := make([]int, len(alts)+2)
					for i := 1; i < len(costs); i++ {
						costs[i] = 1
					}
					c := in.ChooseW(len(costs), costs)
					switch {
					case c == 0:
						if has {
							vars[p.name] = good
						} else {
							vars[p.name] = "a"
						}
					case c == len(costs)-1:
						dev++ // left missing
					default:
						vars[p.name] = alts[c-1]
						dev++
					}
				}
				si := in.ChooseW(len(sheets), []int{0, 1, 1, 1})
				if si != 0 {
					dev++
				}
				bal := env.Bal{"a": {"USD": sheets[si].a, "EUR": bi(5)}, "b": {"USD": sheets[si].b}}
				meta := env.Meta{}
				for _, mk := range b.Meta {
					parts := strings.SplitN(mk, ".", 2)
					alts := []string{b.Good[mk], "\x00absent", "", "abc", "-1", "3/2", "zz", "world"}
					costs := []int{0, 1, 1, 1, 1, 1, 1, 1}
					c := in.ChooseW(len(alts), costs)
					if c != 0 {
						dev++
					}
					if alts[c] == "\x00absent" {
						continue
					}
					if meta[parts[0]] == nil {
						meta[parts[0]] = map[string]string{}
					}
					meta[parts[0]][parts[1]] = alts[c]
				}
				inp := ref.Inputs{Vars: vars, Bal: bal, Meta: meta, OverdraftFlag: true}
				model := ref.Run(prog, inp)
				st := env.New(env.Exact, bal, meta)
				out := RunReal(pr, vars, st, flagsOn)
				key := text + "|" + varsStr(vars) + "|" + balStr(bal) + "|" + fmt.Sprint(meta)
				outcome := fmt.Sprintf("dev=%d model=%s real=%s", dev, orOK(model.Err), out.Class())
				w.Eval(key, out.Err != nil || out.Panic != "" || st.Calls > 0, outcome)
				mk := func(o *Out, fault int) Case {
					c := Case{Script: text, Vars: copyVars(vars), Balances: balStr(bal), Meta: meta,
						Observed: o.Class() + ": " + postingsStr(o.Postings), Expected: "model: " + orOK(model.Err),
						Extra: map[string]any{"deviations": descs}}
					if o.Err != nil {
						c.Observed = o.Class() + ": " + o.Err.Error()
					}
					if o.Panic != "" {
						c.Observed = "panic: " + o.Panic + " @" + o.Where
					}
					if fault > 0 {
						c.Extra["fault_at_store_call"] = fault
					}
					return c
				}
				size := len(text) + len(varsStr(vars)) + dev*50
				// an account variable whose text is outside the account grammar is an ill-typed variable
				badAccount := ""
				for _, p := range plain {
					if val, given := vars[p.name]; given && p.typ == "account" && !c12AccountRe.MatchString(val) {
						for _, d := range prog.Vars {
							if d.Name.Name == p.name && d.Type.Name == "account" {
								badAccount = val
							}
						}
					}
				}
				if badAccount != "" && out.Err == nil && out.Panic == "" && dev <= 1 {
					w.Violation("C12.error-swallowed:invalid-account-name", fmt.Sprintf("the account variable value %q is not an account name, yet execution succeeded with %s", badAccount, postingsStr(out.Postings)), size, mk(out, 0))
				}
				switch {
				case out.Panic != "":
					w.Violation("C12.panic@"+out.Where, "execution panicked: "+out.Panic, size, mk(out, 0))
				case out.Err != nil && !out.ResEmpty:
					w.Violation("C12.atomic", "an error was returned together with postings or metadata", size, mk(out, 0))
				case dev <= 1 && model.Err != ref.EUnspecified:
					switch {
					case model.Err == "" && out.Err != nil:
						w.Violation("C12.wrong-cause:"+out.ErrType, "nothing is wrong with the script and its inputs, yet execution failed: "+out.Err.Error(), size, mk(out, 0))
					case model.Err != "" && out.Err == nil:
						// (until fix 24 a destination clause that received nothing was not visited, and an
						// ill-typed expression there could legitimately go unreported; since then every
						// clause is visited and every cap evaluated, so nothing is tolerated any more)
						lazy := false
						_ = inDstOnly
						if !lazy {
							w.Violation("C12.error-swallowed:"+model.Err, "expected failure "+model.Err+", but execution succeeded with "+postingsStr(out.Postings), size, mk(out, 0))
						} else {
							w.Count("lazy-destination-success", 1)
						}
					case model.Err != "" && causeOf(out.ErrType) != causeOf(model.Err):
						w.Violation("C12.wrong-error:"+model.Err+"->"+out.ErrType, "expected error "+model.Err+", got "+out.ErrType+": "+out.Err.Error(), size, mk(out, 0))
					}
				}
				if out.Err != nil || out.Panic != "" {
					w.Sample(outcome, mk(out, 0))
				}
				// fault enumeration: every store call of this execution fails in turn
				n := st.Calls
				for k := 1; k <= n; k++ {
					fs := env.New(env.Exact, bal, meta)
					fs.FaultAt = k
					fo := RunReal(pr, vars, fs, flagsOn)
					w.Eval(key+fmt.Sprintf("|fault%d", k), true, fmt.Sprintf("fault real=%s", fo.Class()))
					switch {
					case fo.Panic != "":
						w.Violation("C12.fault-panic@"+fo.Where, fmt.Sprintf("store failure at call %d made the execution panic: %s", k, fo.Panic), size, mk(fo, k))
					case fo.Err == nil:
						w.Violation("C12.fault-swallowed", fmt.Sprintf("the store failed at call %d but the execution returned a result", k), size, mk(fo, k))
					case !strings.Contains(fo.Err.Error(), env.FaultMsg(k)):
						w.Violation("C12.fault-message", fmt.Sprintf("the store failed at call %d; the error does not carry its message: %s", k, fo.Err.Error()), size, mk(fo, k))
					case !fo.ResEmpty:
						w.Violation("C12.fault-atomic", fmt.Sprintf("store failure at call %d returned an error together with a result", k), size, mk(fo, k))
					}
					if k == 1 {
						w.Sample("fault", mk(fo, k))
					}
				}
			})
		})
	})
}

// varTypeOfBase: the value alphabet is chosen by the type the base declares (so that a
// retyped declaration still receives values of its original type).
func varTypeOfBase(b c12Base, name, declared string) string {
	for _, d := range b.Mk().Vars {
		if d.Name.Name == name {
			return d.Type.Name
		}
	}
	return declared
}

// causeOf maps an error type to the cause the property's statement names (insufficient funds,
// negative amount, mismatched asset, invalid portion or allotment sum, wrong type, unknown
// name, missing variable or metadata, ...): the check compares causes, not Go type names, so
// that errors may be regrouped or renamed within a cause without raising an alarm.
func causeOf(errType string) string {
	switch errType {
	case "MissingFundsErr":
		return "insufficient-funds"
	case "NegativeAmountErr", "NegativeBalanceError":
		return "negative-amount"
	case "MismatchedCurrencyError":
		return "mismatched-asset"
	case "BadPortionParsingErr", "InvalidAllotmentSum":
		return "invalid-portion"
	case "TypeError", "InvalidNumberLiteral", "InvalidMonetaryLiteral", "InvalidTypeErr", "InvalidAccountName":
		return "wrong-type"
	case "UnboundVariableErr", "UnboundFunctionErr":
		return "unknown-name"
	case "BadArityErr":
		return "wrong-arity"
	case "MissingVariableErr", "MetadataNotFound":
		return "missing-variable-or-metadata"
	case "ExperimentalFeature":
		return "feature-flag"
	case "InvalidUnboundedInSendAll", "InvalidAllotmentInSendAll":
		return "send-all-shape"
	case "QueryBalanceError", "QueryMetadataError":
		return "store"
	}
	return "other:" + errType
}
