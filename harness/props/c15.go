package props

import (
	"fmt"
	"strings"
	"time"

	"github.com/formancehq/numscript/internal/parser"
	"github.com/formancehq/numscript/internal/verifmc/gen"
	"github.com/formancehq/numscript/internal/verifmc/mc"
	"github.com/formancehq/numscript/internal/verifmc/ref"
)

// C15 Parsing recovers exactly the script written - structure, values and positions.

func init() {
	mc.Register(&mc.Property{
		ID:    "C15",
		Title: "Parsing recovers exactly the script written",
		Rule: "all scripts of the grammar-complete typed generator up to weight W (every alternative of every rule, nesting up to the stage's depth) x layouts by deviation bounding: single space everywhere, then every set of <= K token gaps (including before the first and after the last token) replaced by each of {tab, LF, CRLF, two spaces, /* c */, /* é€ */, // c LF, nothing, a lone CR (a character of its line for the parser), blank CR blank LF}; layouts that change the token sequence (decided by the reference lexer) are not cases; " +
			"oracle: parser.Parse(text).Value equals the generator's tree node by node (kinds, field roles, literal values, left-nested infix chains, declarations and origins), zero parse errors, and every range equals the span recorded by the printer, in characters; " +
			"non-trivial = the layout is not the default one or the script has a composite source/destination; distinct = rendered text",
		Assumptions: []string{"the reference lexer (harness/ref/syntax.go) decides which layouts keep the token sequence", "numbers are compared as int64 (literals beyond int64 are C14's subject)"},
		QuickBudget: 240 * time.Second,
		ThoroBudget: 12 * time.Minute,
		Run:         runC15,
	})
}

var c15Seps = []string{" ", "\t", "\n", "\r\n", "  ", "/* c */", "/* é€ */", "// c\n", "", "\r", " \r \n"}

func sameTokens(text string, toks []string) bool {
	lr := ref.Lex(text)
	if lr.Err || lr.Unmodelled || len(lr.Toks) != len(toks) {
		return false
	}
	for i, t := range lr.Toks {
		if t.Text != toks[i] {
			return false
		}
	}
	return true
}

func runC15(w *mc.Worker) {
	type bound struct {
		name           string
		weight, depth  int
		stmts, layouts int
	}
	var stages []bound
	if w.Tier == "quick" {
		stages = []bound{{"w2-d1-k1", 2, 1, 2, 1}, {"w3-d2-k1", 3, 2, 2, 1}}
	} else {
		stages = []bound{{"w3-d2-k1", 3, 2, 2, 1}, {"w2-d1-k2", 2, 1, 2, 2}, {"w4-d2-k1", 4, 2, 3, 1}}
	}
	for _, b := range stages {
		b := b
		w.Stage(b.name, fmt.Sprintf("scripts of weight <= %d, nesting depth <= %d, <= %d statements; <= %d token gaps re-laid out with 10 alternative separators", b.weight, b.depth, b.stmts, b.layouts), func() {
			g := &Full{MaxStmts: b.stmts, Depth: b.depth}
			w.Outer(b.name+"/script", b.weight, func(o *mc.Explorer) {
				prog := g.Program(o)
				pr := gen.Print(prog)
				base := pr.Text()
				if !w.Mine(base) {
					return
				}
				w.Owned()
				composite := strings.Contains(base, "{") || strings.Contains(base, "max") || strings.Contains(base, "allowing")
				// the tree of the default layout, parsed first: it must still be the tree of that text
				// after every later parse (nodes or ranges shared between parses would change it)
				var first parser.ParseResult
				firstOK := false
				dseps := pr.DefaultSeps()
				dseps[len(pr.Toks)] = "\n"
				dtext, dstarts, dends := pr.Render(dseps)
				if m, _ := guard(func() { first = parser.Parse(dtext) }); m == "" && len(first.Errors) == 0 {
					firstOK = true
				}
				w.Inner(b.layouts, func(in *mc.Explorer) {
					seps := make([]string, len(pr.Toks)+1)
					costs := make([]int, len(c15Seps))
					for i := 1; i < len(costs); i++ {
						costs[i] = 1
					}
					dev := 0
					for i := range seps {
						def := " "
						if i == 0 {
							def = ""
						}
						if i == len(pr.Toks) {
							def = "\n"
						}
						c := in.ChooseW(len(c15Seps), costs)
						if c == 0 {
							seps[i] = def
						} else {
							seps[i] = c15Seps[c]
							if c15Seps[c] == def {
								seps[i] = def + " " // the deviation that equals the default: use a doubled one instead
							}
							dev++
						}
					}
					text, starts, ends := pr.Render(seps)
					if !sameTokens(text, pr.Toks) {
						w.Count("layouts-changing-the-tokens", 1)
						// gluing two tokens with NOTHING between them may legitimately fuse them; a
						// COMMENT between two tokens must never change them (the statement says so)
						if dev == 1 {
							for i := 1; i < len(seps)-1; i++ {
								if strings.HasPrefix(seps[i], "/*") || strings.HasPrefix(seps[i], "//") {
									prev := "?"
									if lr := ref.Lex(pr.Toks[i-1]); len(lr.Toks) == 1 {
										prev = lr.Toks[0].Kind
									}
									w.Eval(text, true, "comment-changes-tokens")
									w.Violation("C15.comment-changes-tokens:after-"+prev, "a comment inserted between two tokens changes how the text is tokenised (the comment opener is absorbed by the token before it)", len(text), Case{Script: text})
								}
							}
						}
						return
					}
					var res parser.ParseResult
					pmsg, where := guard(func() { res = parser.Parse(text) })
					nt := dev > 0 || composite
					mk := func() Case { return Case{Script: text} }
					if pmsg != "" {
						w.Eval(text, nt, "panic")
						c := mk()
						c.Observed = "panic: " + pmsg
						w.Violation("C15.panic@"+where, "parsing a well-formed script panicked: "+pmsg, len(text), c)
						return
					}
					if len(res.Errors) != 0 {
						w.Eval(text, nt, "parse-errors")
						c := mk()
						c.Observed = fmt.Sprintf("%d errors, first: %s", len(res.Errors), res.Errors[0].Msg)
						w.Violation("C15.rejected", "a well-formed script was reported with parse errors", len(text), c)
						return
					}
					cmp := &astCmp{spans: pr.Spans, starts: starts, ends: ends, checkRanges: true}
					pmsg, where = guard(func() { cmp.program(prog, res.Value) })
					if pmsg != "" {
						w.Eval(text, nt, "tree-walk-panic")
						c := mk()
						c.Observed = "walking the parsed tree panicked (nil node?): " + pmsg
						w.Violation("C15.structure:nil@"+where, "the parsed tree of a well-formed script has a nil node: "+pmsg, len(text), c)
						return
					}
					outcome := fmt.Sprintf("ok dev=%d", dev)
					if cmp.structDiff != "" {
						outcome = "structure-differs"
					} else if cmp.rangeDiff != "" {
						outcome = "range-differs"
					}
					w.Eval(text, nt, outcome)
					w.Count("nodes-compared", int64(cmp.nodes))
					if cmp.structDiff != "" {
						c := mk()
						c.Observed = cmp.structDiff
						kind := strings.SplitN(cmp.structDiff, " ", 3)[0]
						w.Violation("C15.structure:"+kind, "the parsed tree differs from the script written: "+cmp.structDiff, len(text), c)
					} else if cmp.next != len(pr.Spans) {
						c := mk()
						c.Observed = fmt.Sprintf("%d ranged nodes printed, %d found in the parsed tree", len(pr.Spans), cmp.next)
						w.Violation("C15.structure:missing-nodes", "the parsed tree has fewer nodes than the script written", len(text), c)
					} else if cmp.rangeDiff != "" {
						feat := ""
						if !isASCII(text) {
							feat = ":non-ascii"
						}
						c := mk()
						c.Observed = cmp.rangeDiff
						w.Violation("C15.range:"+cmp.rangeKind+feat, "a range does not delimit the text of its construct: "+cmp.rangeDiff, len(text), c)
					}
					if firstOK && cmp.structDiff == "" && cmp.rangeDiff == "" {
						again := &astCmp{spans: pr.Spans, starts: dstarts, ends: dends, checkRanges: true}
						m, _ := guard(func() { again.program(prog, first.Value) })
						if m != "" || again.structDiff != "" || again.rangeDiff != "" {
							c := mk()
							c.Observed = "tree of the earlier text now: " + m + again.structDiff + again.rangeDiff
							c.Extra = map[string]any{"earlier_text": dtext}
							w.Violation("C15.earlier-tree-changed", "the tree parsed from an earlier text (the same script in the one-line layout) changed when this text was parsed: it no longer has the structure and ranges of its own text", len(text), c)
							firstOK = false
						}
					}
					if nt && dev > 0 {
						w.Sample(fmt.Sprintf("dev%d-%d", dev, len(text)%7), mk())
					}
				})
			})
		})
	}
}

func isASCII(s string) bool {
	for i := 0; i < len(s); i++ {
		if s[i] >= 0x80 {
			return false
		}
	}
	return true
}
