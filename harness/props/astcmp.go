package props

import (
	"fmt"
	"math/big"
	"strconv"

	"github.com/formancehq/numscript/internal/parser"
	"github.com/formancehq/numscript/internal/verifmc/gen"
	"github.com/formancehq/numscript/internal/verifmc/ref"
)

// astCmp walks the harness AST and numscript's parsed AST in parallel. It reports the first
// structural / value difference and the first range that does not delimit exactly the text of
// its construct (spans recorded by the printer, positions computed by the layout).
type astCmp struct {
	spans       []gen.NodeSpan
	next        int
	starts      []gen.Pos
	ends        []gen.Pos
	structDiff  string
	rangeDiff   string
	rangeKind   string
	nodes       int
	checkRanges bool
}

func (c *astCmp) sdiff(f string, a ...any) {
	if c.structDiff == "" {
		c.structDiff = fmt.Sprintf(f, a...)
	}
}

// take consumes the next recorded span (the printer's pre-order) and checks r against it.
func (c *astCmp) take(kind string, r parser.Range) {
	if c.next >= len(c.spans) {
		c.sdiff("more ranged nodes in the parsed tree than printed (%s)", kind)
		return
	}
	sp := c.spans[c.next]
	c.next++
	c.nodes++
	if sp.Kind != kind {
		c.sdiff("node %d: printed a %s, comparing as %s (harness traversal mismatch)", c.next-1, sp.Kind, kind)
		return
	}
	if !c.checkRanges {
		return
	}
	ws, we := c.starts[sp.First], c.ends[sp.Last]
	if r.Start.Line != ws.Line || r.Start.Character != ws.Char || r.End.Line != we.Line || r.End.Character != we.Char {
		if c.rangeDiff == "" {
			c.rangeKind = kind
			c.rangeDiff = fmt.Sprintf("%s: range %d:%d-%d:%d, its text spans %d:%d-%d:%d", kind,
				r.Start.Line, r.Start.Character, r.End.Line, r.End.Character, ws.Line, ws.Char, we.Line, we.Char)
		}
	}
}

func (c *astCmp) expr(g gen.Expr, p parser.ValueExpr) {
	if p == nil || isNilIface(p) {
		c.sdiff("expression missing in the parsed tree (expected %T)", g)
		return
	}
	switch g := g.(type) {
	case *gen.Var:
		v, ok := p.(*parser.Variable)
		if !ok {
			c.sdiff("expected variable $%s, parsed %T", g.Name, p)
			return
		}
		c.take("Variable", v.Range)
		if v.Name != g.Name {
			c.sdiff("variable name %q, written %q", v.Name, g.Name)
		}
	case *gen.AssetLit:
		v, ok := p.(*parser.AssetLiteral)
		if !ok {
			c.sdiff("expected asset %s, parsed %T", g.S, p)
			return
		}
		c.take("AssetLiteral", v.Range)
		if v.Asset != g.S {
			c.sdiff("asset %q, written %q", v.Asset, g.S)
		}
	case *gen.StrLit:
		v, ok := p.(*parser.StringLiteral)
		if !ok {
			c.sdiff("expected string %q, parsed %T", g.S, p)
			return
		}
		c.take("StringLiteral", v.Range)
		if v.String != g.S {
			c.sdiff("string %q, written %q", v.String, g.S)
		}
	case *gen.AcctLit:
		v, ok := p.(*parser.AccountLiteral)
		if !ok {
			c.sdiff("expected account @%s, parsed %T", g.Name, p)
			return
		}
		c.take("AccountLiteral", v.Range)
		if v.Name != g.Name {
			c.sdiff("account %q, written %q", v.Name, g.Name)
		}
	case *gen.NumLit:
		v, ok := p.(*parser.NumberLiteral)
		if !ok {
			c.sdiff("expected number %s, parsed %T", g.Text, p)
			return
		}
		c.take("NumberLiteral", v.Range)
		want, err := strconv.ParseInt(g.Text, 10, 64)
		if err == nil && int64(v.Number) != want {
			c.sdiff("number %d, written %s", v.Number, g.Text)
		}
	case *gen.PortionLit:
		v, ok := p.(*parser.RatioLiteral)
		if !ok {
			c.sdiff("expected portion %s, parsed %T", g.Text, p)
			return
		}
		c.take("RatioLiteral", v.Range)
		c.portion(g, v)
	case *gen.MonLit:
		v, ok := p.(*parser.MonetaryLiteral)
		if !ok {
			c.sdiff("expected monetary literal, parsed %T", p)
			return
		}
		c.take("MonetaryLiteral", v.Range)
		c.expr(g.Asset, v.Asset)
		c.expr(g.Amt, v.Amount)
	case *gen.Infix:
		v, ok := p.(*parser.BinaryInfix)
		if !ok {
			c.sdiff("expected infix %s, parsed %T", g.Op, p)
			return
		}
		c.take("BinaryInfix", v.Range)
		if string(v.Operator) != g.Op {
			c.sdiff("operator %q, written %q", v.Operator, g.Op)
		}
		c.expr(g.L, v.Left)
		c.expr(g.R, v.Right)
	}
}

func (c *astCmp) portion(g *gen.PortionLit, v *parser.RatioLiteral) {
	want := ref.PortionOfText(g.Text)
	if want == nil || v.Numerator == nil || v.Denominator == nil || v.Denominator.Sign() == 0 {
		if want != nil {
			c.sdiff("portion %s parsed without a usable value", g.Text)
		}
		return
	}
	if new(big.Rat).SetFrac(v.Numerator, v.Denominator).Cmp(want) != 0 {
		c.sdiff("portion %s/%s, written %s", v.Numerator, v.Denominator, g.Text)
	}
}

func isNilIface(x any) bool {
	switch v := x.(type) {
	case *parser.Variable:
		return v == nil
	case *parser.MonetaryLiteral:
		return v == nil
	case *parser.RatioLiteral:
		return v == nil
	case *parser.NumberLiteral:
		return v == nil
	}
	return false
}

func (c *astCmp) allot(g gen.Allot, p parser.AllotmentValue) {
	switch g := g.(type) {
	case *gen.Remaining:
		v, ok := p.(*parser.RemainingAllotment)
		if !ok {
			c.sdiff("expected `remaining`, parsed %T", p)
			return
		}
		c.take("RemainingAllotment", v.Range)
	case *gen.Var:
		v, ok := p.(*parser.Variable)
		if !ok {
			c.sdiff("expected portion variable, parsed %T", p)
			return
		}
		c.take("Variable", v.Range)
		if v.Name != g.Name {
			c.sdiff("variable name %q, written %q", v.Name, g.Name)
		}
	case *gen.PortionLit:
		v, ok := p.(*parser.RatioLiteral)
		if !ok {
			c.sdiff("expected portion literal, parsed %T", p)
			return
		}
		c.take("RatioLiteral", v.Range)
		c.portion(g, v)
	}
}

func (c *astCmp) source(g gen.Source, p parser.Source) {
	if p == nil {
		c.sdiff("source missing in the parsed tree")
		return
	}
	switch g := g.(type) {
	case *gen.SrcAccount:
		v, ok := p.(*parser.SourceAccount)
		if !ok {
			c.sdiff("expected account source, parsed %T", p)
			return
		}
		c.expr(g.E, v.ValueExpr)
	case *gen.SrcOverdraft:
		v, ok := p.(*parser.SourceOverdraft)
		if !ok {
			c.sdiff("expected overdraft source, parsed %T", p)
			return
		}
		c.take("SourceOverdraft", v.Range)
		c.expr(g.Addr, v.Address)
		if (g.Bounded == nil) != (v.Bounded == nil) {
			c.sdiff("overdraft bounded=%v, written bounded=%v", v.Bounded != nil, g.Bounded != nil)
			return
		}
		if g.Bounded != nil {
			c.expr(g.Bounded, *v.Bounded)
		}
	case *gen.SrcInorder:
		v, ok := p.(*parser.SourceInorder)
		if !ok {
			c.sdiff("expected in-order source, parsed %T", p)
			return
		}
		c.take("SourceInorder", v.Range)
		if len(v.Sources) != len(g.Srcs) {
			c.sdiff("in-order source with %d items, written %d", len(v.Sources), len(g.Srcs))
			return
		}
		for i := range g.Srcs {
			c.source(g.Srcs[i], v.Sources[i])
		}
	case *gen.SrcAllot:
		v, ok := p.(*parser.SourceAllotment)
		if !ok {
			c.sdiff("expected allotment source, parsed %T", p)
			return
		}
		c.take("SourceAllotment", v.Range)
		if len(v.Items) != len(g.Items) {
			c.sdiff("allotment source with %d items, written %d", len(v.Items), len(g.Items))
			return
		}
		for i := range g.Items {
			c.take("SourceAllotmentItem", v.Items[i].Range)
			c.allot(g.Items[i].A, v.Items[i].Allotment)
			c.source(g.Items[i].From, v.Items[i].From)
		}
	case *gen.SrcCapped:
		v, ok := p.(*parser.SourceCapped)
		if !ok {
			c.sdiff("expected capped source, parsed %T", p)
			return
		}
		c.take("SourceCapped", v.Range)
		c.expr(g.Cap, v.Cap)
		c.source(g.From, v.From)
	}
}

func (c *astCmp) kod(g gen.KoD, p parser.KeptOrDestination) {
	switch g := g.(type) {
	case *gen.Kept:
		v, ok := p.(*parser.DestinationKept)
		if !ok {
			c.sdiff("expected `kept`, parsed %T", p)
			return
		}
		c.take("DestinationKept", v.Range)
	case *gen.To:
		v, ok := p.(*parser.DestinationTo)
		if !ok {
			c.sdiff("expected `to <destination>`, parsed %T", p)
			return
		}
		c.dest(g.D, v.Destination)
	}
}

func (c *astCmp) dest(g gen.Dest, p parser.Destination) {
	if p == nil {
		c.sdiff("destination missing in the parsed tree")
		return
	}
	switch g := g.(type) {
	case *gen.DstAccount:
		v, ok := p.(*parser.DestinationAccount)
		if !ok {
			c.sdiff("expected account destination, parsed %T", p)
			return
		}
		c.expr(g.E, v.ValueExpr)
	case *gen.DstInorder:
		v, ok := p.(*parser.DestinationInorder)
		if !ok {
			c.sdiff("expected ordered destination, parsed %T", p)
			return
		}
		c.take("DestinationInorder", v.Range)
		if len(v.Clauses) != len(g.Clauses) {
			c.sdiff("ordered destination with %d clauses, written %d", len(v.Clauses), len(g.Clauses))
			return
		}
		for i := range g.Clauses {
			c.take("DestinationInorderClause", v.Clauses[i].Range)
			c.expr(g.Clauses[i].Cap, v.Clauses[i].Cap)
			c.kod(g.Clauses[i].To, v.Clauses[i].To)
		}
		c.kod(g.Remaining, v.Remaining)
	case *gen.DstAllot:
		v, ok := p.(*parser.DestinationAllotment)
		if !ok {
			c.sdiff("expected allotment destination, parsed %T", p)
			return
		}
		c.take("DestinationAllotment", v.Range)
		if len(v.Items) != len(g.Items) {
			c.sdiff("allotment destination with %d items, written %d", len(v.Items), len(g.Items))
			return
		}
		for i := range g.Items {
			c.take("DestinationAllotmentItem", v.Items[i].Range)
			c.allot(g.Items[i].A, v.Items[i].Allotment)
			c.kod(g.Items[i].To, v.Items[i].To)
		}
	}
}

func (c *astCmp) sent(g gen.Sent, p parser.SentValue) {
	switch g := g.(type) {
	case *gen.SentLit:
		v, ok := p.(*parser.SentValueLiteral)
		if !ok {
			c.sdiff("expected a sent amount, parsed %T", p)
			return
		}
		c.take("SentValueLiteral", v.Range)
		c.expr(g.E, v.Monetary)
	case *gen.SentAll:
		v, ok := p.(*parser.SentValueAll)
		if !ok {
			c.sdiff("expected send-all, parsed %T", p)
			return
		}
		c.take("SentValueAll", v.Range)
		c.expr(g.Asset, v.Asset)
	}
}

func (c *astCmp) call(g *gen.Call, p *parser.FnCall) {
	if p == nil {
		c.sdiff("function call missing in the parsed tree")
		return
	}
	c.take("FnCall", p.Range)
	if p.Caller == nil {
		c.sdiff("function call without caller")
		return
	}
	c.take("FnCaller", p.Caller.Range)
	if p.Caller.Name != g.Name {
		c.sdiff("function %q, written %q", p.Caller.Name, g.Name)
	}
	if len(p.Args) != len(g.Args) {
		c.sdiff("call with %d arguments, written %d", len(p.Args), len(g.Args))
		return
	}
	for i := range g.Args {
		c.expr(g.Args[i], p.Args[i])
	}
}

func (c *astCmp) program(g *gen.Program, p parser.Program) {
	if len(p.Vars) != len(g.Vars) {
		c.sdiff("%d variable declarations, written %d", len(p.Vars), len(g.Vars))
		return
	}
	for i, d := range g.Vars {
		pd := p.Vars[i]
		c.take("VarDecl", pd.Range)
		if pd.Type == nil || pd.Name == nil {
			c.sdiff("declaration %d lacks its type or name", i)
			return
		}
		c.take("TypeDecl", pd.Type.Range)
		if pd.Type.Name != d.Type.Name {
			c.sdiff("declared type %q, written %q", pd.Type.Name, d.Type.Name)
		}
		c.take("VarName", pd.Name.Range)
		if pd.Name.Name != d.Name.Name {
			c.sdiff("declared name %q, written %q", pd.Name.Name, d.Name.Name)
		}
		if (d.Origin == nil) != (pd.Origin == nil) {
			c.sdiff("declaration %d origin present=%v, written %v", i, pd.Origin != nil, d.Origin != nil)
			return
		}
		if d.Origin != nil {
			c.call(d.Origin, pd.Origin)
		}
	}
	if len(p.Statements) != len(g.Stmts) {
		c.sdiff("%d statements, written %d", len(p.Statements), len(g.Stmts))
		return
	}
	for i, s := range g.Stmts {
		switch s := s.(type) {
		case *gen.Send:
			v, ok := p.Statements[i].(*parser.SendStatement)
			if !ok {
				c.sdiff("statement %d: expected send, parsed %T", i, p.Statements[i])
				return
			}
			c.take("SendStatement", v.Range)
			c.sent(s.Sent, v.SentValue)
			c.source(s.Src, v.Source)
			c.dest(s.Dst, v.Destination)
		case *gen.Save:
			v, ok := p.Statements[i].(*parser.SaveStatement)
			if !ok {
				c.sdiff("statement %d: expected save, parsed %T", i, p.Statements[i])
				return
			}
			c.take("SaveStatement", v.Range)
			c.sent(s.Sent, v.SentValue)
			c.expr(s.Acct, v.Amount)
		case *gen.Call:
			v, ok := p.Statements[i].(*parser.FnCall)
			if !ok {
				c.sdiff("statement %d: expected call, parsed %T", i, p.Statements[i])
				return
			}
			c.call(s, v)
		}
	}
}
