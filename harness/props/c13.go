package props

import (
	"encoding/json"
	"fmt"
	"math/big"
	"strings"
	"time"

	"github.com/formancehq/numscript/internal/interpreter"
	"github.com/formancehq/numscript/internal/parser"
	"github.com/formancehq/numscript/internal/verifmc/env"
	"github.com/formancehq/numscript/internal/verifmc/mc"
	"github.com/formancehq/numscript/internal/verifmc/ref"
)

// C13 Values keep their exact meaning across literal, variable and metadata text.

func init() {
	mc.Register(&mc.Property{
		ID:    "C13",
		Title: "Values keep their exact meaning across texts",
		Rule: "(a) ALL portion texts n/d with numerals of <= N digits (leading zeros included, optional single space on either side of the slash, value in [0,1]) and ALL p% / p.q% with <= P+Q digits (value <= 100%), each through three routes: literal in a script, portion variable, and the conversion functions called directly; oracle: with total T = d*10^3 (resp. 10^(2+|q|)*10^3) the credit of `{P to @a remaining to @b}` is exactly P*T computed with independent base-ten big-rational arithmetic, and the routes agree; " +
			"(b) values of the six types from alphabets (accounts with ':' '-' '_', assets of the literal grammar, strings with spaces / escapes / non-ASCII, numbers and monetaries in {0,+-1,+-H}, portions) written by set_account_meta, fed back as store metadata to `vars { T $v = meta(...) }` of a second script and compared through set_tx_meta; tx metadata JSON unquotes to the same text; " +
			"non-trivial = the text has a leading zero, a space or a fractional part, or the value is neither 0 nor 1; distinct = text + route",
		Assumptions: []string{"zero denominators are not portions and are excluded (C12/C14/C18 cover them)", "expected values come from harness/ref.PortionOfText (decimal digits only)", "strings and assets passed as variables are UTF-8 text (what JSON, hence the CLI and a ledger, can carry)"},
		QuickBudget: 240 * time.Second,
		ThoroBudget: 12 * time.Minute,
		Run:         runC13,
	})
}

func numerals(maxDigits int) []string {
	var out []string
	for l := 1; l <= maxDigits; l++ {
		n := 1
		for i := 0; i < l; i++ {
			n *= 10
		}
		for v := 0; v < n; v++ {
			out = append(out, fmt.Sprintf("%0*d", l, v))
		}
	}
	return out
}

func runC13(w *mc.Worker) {
	nd, pd, qd := 3, 3, 2
	if w.Tier == "thorough" {
		nd, pd, qd = 3, 3, 4
	}
	one := big.NewRat(1, 1)
	varScript, ok := mustParse(w, "vars { portion $p monetary $t }\nsend $t ( source = @world destination = { $p to @a remaining to @b } )\nset_account_meta ( @acc , \"k\" , $p )\nset_tx_meta ( \"k\" , $p )\nsend $t ( source = @world destination = { $p to @c remaining to @d } )\n")
	if !ok {
		return
	}
	check := func(text string, T *big.Int, wantSpace string) {
		want := ref.PortionOfText(text)
		if want == nil || want.Cmp(one) > 0 {
			return
		}
		exp := new(big.Rat).Mul(want, new(big.Rat).SetInt(T))
		if !exp.IsInt() {
			panic("harness: total not a multiple of the denominator")
		}
		expA := exp.Num()
		nt := strings.HasPrefix(text, "0") && len(text) > 2 || strings.Contains(text, " ") || strings.Contains(text, ".") || (want.Sign() != 0 && want.Cmp(one) != 0)
		// leading zero anywhere
		for _, part := range strings.FieldsFunc(text, func(r rune) bool { return r == '/' || r == '.' || r == '%' || r == ' ' }) {
			if len(part) > 1 && part[0] == '0' {
				nt = true
			}
		}
		judgeCredit := func(route string, out *Out) {
			key := route + "|" + text
			c := Case{Script: route + " route, portion text " + fmt.Sprintf("%q", text) + ", total " + T.String(), Expected: "credit of @a = " + expA.String()}
			switch {
			case out.Panic != "":
				w.Eval(key, nt, route+":panic")
				c.Observed = "panic: " + out.Panic + " @" + out.Where
				w.Violation("C13.panic:"+route+"@"+out.Where, "a portion text of the literal grammar made the "+route+" route panic: "+out.Panic, len(text), c)
				return
			case out.Err != nil:
				w.Eval(key, nt, route+":error:"+out.ErrType)
				c.Observed = "error: " + out.Err.Error()
				w.Violation("C13.rejected:"+route+":"+out.ErrType, "a portion text of the literal grammar with value in [0,1] was rejected on the "+route+" route", len(text), c)
				return
			}
			got := credits(out.Postings)["a"]
			if got == nil {
				got = new(big.Int)
			}
			w.Eval(key, nt, route+":ok")
			if route == "variable" {
				// the variable is used again after the split: written to metadata, and in a second split
				stored := out.AcctMeta["acc"]["k"]
				if back := ref.PortionOfText(stored); back == nil || back.Cmp(want) != 0 {
					c.Observed = "after a first use in a split the variable was stored as " + fmt.Sprintf("%q", stored)
					w.Violation("C13.value:variable-reuse", fmt.Sprintf("portion variable %q (= %s) no longer denotes that number when it is used a second time", text, want.RatString()), len(text), c)
				}
				if g2 := credits(out.Postings)["c"]; (g2 == nil && expA.Sign() != 0) || (g2 != nil && g2.Cmp(expA) != 0) {
					c.Observed = fmt.Sprintf("second split with the same variable credited %v", g2)
					w.Violation("C13.value:variable-reuse", fmt.Sprintf("portion variable %q (= %s) no longer denotes that number when it is used a second time", text, want.RatString()), len(text), c)
				}
			}
			if got.Cmp(expA) != 0 {
				c.Observed = "credit of @a = " + got.String()
				w.Violation("C13.value:"+route, fmt.Sprintf("portion text %q denotes %s; the %s route used %s/%s of the total", text, want.RatString(), route, got, T), len(text), c)
			} else if nt {
				w.Sample(route, Case{Script: c.Script, Observed: "credit of @a = " + got.String(), Expected: c.Expected})
			}
		}
		// route 1: literal
		// (the total enters through a variable: number literals beyond 64 bits do not parse)
		src := "vars { monetary $t } send $t ( source = @world destination = { " + text + " to @a remaining to @b } )\n"
		var pr parsedT
		pmsg, where := guard(func() { pr = numscriptParse(src) })
		if pmsg != "" {
			w.Eval("literal|"+text, nt, "literal:parse-panic")
			w.Violation("C13.panic:literal@"+where, "parsing a script containing the portion literal panicked: "+pmsg, len(text), Case{Script: src, Observed: "panic: " + pmsg})
		} else if len(pr.GetParsingErrors()) != 0 {
			w.Eval("literal|"+text, nt, "literal:parse-error")
			w.Violation("C13.rejected:literal:parse", "a script containing a portion literal of the grammar did not parse", len(text), Case{Script: src, Observed: pr.GetParsingErrors()[0].Msg})
		} else {
			judgeCredit("literal", RunReal(pr, map[string]string{"t": "COIN " + T.String()}, env.New(env.Exact, nil, nil), nil))
		}
		// route 2: variable
		judgeCredit("variable", RunReal(varScript, map[string]string{"p": text, "t": "COIN " + T.String()}, env.New(env.Exact, nil, nil), nil))
		// route 3: the conversion functions
		var r3 *big.Rat
		var err3 error
		pmsg, where = guard(func() {
			var ie interpreter.InterpreterError
			r3, ie = interpreter.ParsePortionSpecific(text)
			if ie != nil {
				err3 = ie
			}
		})
		key := "direct|" + text
		switch {
		case pmsg != "":
			w.Eval(key, nt, "direct:panic")
			w.Violation("C13.panic:direct@"+where, "ParsePortionSpecific panicked: "+pmsg, len(text), Case{Script: "ParsePortionSpecific(" + fmt.Sprintf("%q", text) + ")"})
		case err3 != nil:
			w.Eval(key, nt, "direct:error")
			w.Violation("C13.rejected:direct", "ParsePortionSpecific rejected a portion text with value in [0,1]: "+err3.Error(), len(text), Case{Script: "ParsePortionSpecific(" + fmt.Sprintf("%q", text) + ")"})
		default:
			w.Eval(key, nt, "direct:ok")
			if r3.Cmp(want) != 0 {
				w.Violation("C13.value:direct", fmt.Sprintf("ParsePortionSpecific(%q) = %s, expected %s", text, r3.RatString(), want.RatString()), len(text), Case{Script: "ParsePortionSpecific(" + fmt.Sprintf("%q", text) + ")", Observed: r3.RatString(), Expected: want.RatString()})
			}
		}
		if strings.HasSuffix(text, "%") {
			var n, d *big.Int
			var e error
			pmsg, where = guard(func() { n, d, e = parser.ParsePercentageRatio(text) })
			key := "direct-pct|" + text
			switch {
			case pmsg != "":
				w.Eval(key, nt, "direct-pct:panic")
				w.Violation("C13.panic:direct-pct@"+where, "ParsePercentageRatio panicked: "+pmsg, len(text), Case{Script: "ParsePercentageRatio(" + fmt.Sprintf("%q", text) + ")"})
			case e != nil:
				w.Eval(key, nt, "direct-pct:error")
				w.Violation("C13.rejected:direct-pct", "ParsePercentageRatio rejected a percentage of the literal grammar: "+e.Error(), len(text), Case{Script: "ParsePercentageRatio(" + fmt.Sprintf("%q", text) + ")"})
			default:
				w.Eval(key, nt, "direct-pct:ok")
				if d.Sign() == 0 || new(big.Rat).SetFrac(n, d).Cmp(want) != 0 {
					w.Violation("C13.value:direct-pct", fmt.Sprintf("ParsePercentageRatio(%q) = %s/%s, expected %s", text, n, d, want.RatString()), len(text), Case{Script: "ParsePercentageRatio(" + fmt.Sprintf("%q", text) + ")", Observed: n.String() + "/" + d.String(), Expected: want.RatString()})
				}
			}
		}
	}

	nums := numerals(nd)
	w.Stage(fmt.Sprintf("ratio-%dd", nd), fmt.Sprintf("all n/d with numerals of <= %d digits incl. leading zeros, 4 spacings, value in [0,1], three routes", nd), func() {
		w.Outer(fmt.Sprintf("ratio-%dd/text", nd), 0, func(o *mc.Explorer) {
			d := nums[o.Choose(len(nums))]
			if !w.Mine("d" + d) {
				return
			}
			dv, _ := new(big.Int).SetString(d, 10)
			if dv.Sign() == 0 {
				return
			}
			w.Owned()
			T := new(big.Int).Mul(dv, big.NewInt(1000))
			w.Inner(0, func(in *mc.Explorer) {
				n := nums[in.Choose(len(nums))]
				sp := []string{"/", " /", "/ ", " / "}[in.Choose(4)]
				check(n+sp+d, T, sp)
			})
		})
	})
	// numerals at the machine-word boundaries (19 and 20 characters, with and without leading zeros)
	w.Stage("word-boundary-ratios", "all n/d over 14 numerals around 2^31, 2^32, 10^18, 2^63, 2^64 and 10^19 (19- and 20-character numerals, leading zeros) and their halves, value in [0,1], three routes", func() {
		p2 := func(k uint) *big.Int { return new(big.Int).Lsh(big.NewInt(1), k) }
		add := func(a *big.Int, d int64) string { return new(big.Int).Add(a, big.NewInt(d)).String() }
		e18 := new(big.Int).Exp(big.NewInt(10), big.NewInt(18), nil)
		ws := []string{add(p2(31), 0), add(p2(32), 0), e18.String(), add(p2(63), -1), add(p2(63), 0), add(p2(63), 1), "9500000000000000000", "9999999999999999999",
			add(p2(64), -1), add(p2(64), 0), add(p2(64), 1), "0" + add(p2(63), 0), "0000000000" + add(p2(63), 2), "4750000000000000000"}
		w.Outer("word-boundary-ratios/text", 0, func(o *mc.Explorer) {
			d := ws[o.Choose(len(ws))]
			if !w.Mine("wd" + d) {
				return
			}
			w.Owned()
			dv, _ := new(big.Int).SetString(d, 10)
			T := new(big.Int).Mul(dv, big.NewInt(1000))
			w.Inner(0, func(in *mc.Explorer) {
				alts := append([]string{"1", new(big.Int).Rsh(dv, 1).String(), add(dv, -1), "0" + new(big.Int).Rsh(dv, 1).String()}, ws...)
				n := alts[in.Choose(len(alts))]
				if nv, _ := new(big.Int).SetString(n, 10); nv.Cmp(dv) > 0 {
					return
				}
				check(n+"/"+d, T, "/")
			})
		})
	})
	ps := numerals(pd)
	qs := append([]string{""}, numerals(qd)...)
	w.Stage(fmt.Sprintf("percent-%d.%dd", pd, qd), fmt.Sprintf("all p%% and p.q%% with <= %d integer and <= %d fractional digits incl. leading zeros, value <= 100%%, three routes + ParsePercentageRatio", pd, qd), func() {
		w.Outer(fmt.Sprintf("percent-%d.%dd/text", pd, qd), 0, func(o *mc.Explorer) {
			p := ps[o.Choose(len(ps))]
			if !w.Mine("p" + p) {
				return
			}
			w.Owned()
			w.Inner(0, func(in *mc.Explorer) {
				q := qs[in.Choose(len(qs))]
				text := p + "%"
				if q != "" {
					text = p + "." + q + "%"
				}
				T := new(big.Int).Exp(big.NewInt(10), big.NewInt(int64(2+len(q)+3)), nil)
				check(text, T, "")
			})
		})
	})

	// every number of digits up to 40 (each power of ten up to 10^42 as a scale): the places where a
	// machine-word short cut for 10^n or for the numerator stops being valid
	w.Stage("digit-count-sweep", "percentages with every number q = 0..40 of fractional digits (digits 3…3, 0…01, 9…9 after 12 / 0 / 99, and 100.0…0%) and with 1..40 integer digits (leading zeros), ratios n/10^k and (10^k-1)/10^k for k = 1..40; three routes + ParsePercentageRatio", func() {
		w.Outer("digit-count-sweep/text", 0, func(o *mc.Explorer) {
			q := o.Choose(41)
			kind := o.Choose(8)
			rep := func(c string, n int) string { return strings.Repeat(c, n) }
			text := ""
			switch kind {
			case 0:
				text = "12." + rep("3", q) + "%"
			case 1:
				text = "0." + rep("0", q) + "1%"
			case 2:
				text = "99." + rep("9", q) + "%"
			case 3:
				text = "100." + rep("0", q) + "%"
			case 4:
				text = rep("0", q) + "50%"
			case 5:
				text = rep("0", q) + "7." + rep("5", q) + "%"
			case 6:
				text = "25" + rep("0", q) + "/1" + rep("0", q+2)
			case 7:
				text = rep("9", q+1) + "/1" + rep("0", q+1)
			}
			if q == 0 {
				text = strings.Replace(text, ".%", "%", 1)
			}
			if !w.Mine("dc" + text) {
				return
			}
			w.Owned()
			w.Inner(0, func(in *mc.Explorer) {
				T := new(big.Int).Exp(big.NewInt(10), big.NewInt(int64(q+6)), nil)
				check(text, T, "sweep")
			})
		})
	})

	// long numerals (direct and variable routes; the literal route too in the thorough tier)
	w.Stage("long-numerals", "percentages with 25 / 400 / 20000 (thorough: 1000001) fractional digits and ratios with 30- and 1000-digit numerals: ParsePortionSpecific and the variable route (literal route in the thorough tier)", func() {
		zeros := func(n int) string { return strings.Repeat("0", n) }
		huge := 20000
		if w.Tier == "thorough" {
			huge = 1000001 // beyond the 10^6-digit limit of big.Rat.SetString (slow: minutes of GCD)
		}
		longs := []string{
			"50." + zeros(25) + "%", "12." + zeros(399) + "5%", "50." + zeros(huge) + "%",
			"1" + zeros(29) + "/4" + zeros(29), "3/" + "7" + zeros(999), zeros(40) + "1/" + zeros(40) + "3",
		}
		w.Outer("long-numerals/text", 0, func(o *mc.Explorer) {
			i := o.Choose(len(longs))
			text := longs[i]
			if !w.Mine(fmt.Sprint("long", i)) {
				return
			}
			w.Owned()
			w.Inner(0, func(in *mc.Explorer) {
				want := ref.PortionOfText(text)
				label := fmt.Sprintf("%s...(%d characters)", text[:12], len(text))
				var got *big.Rat
				var err error
				pmsg, where := guard(func() {
					r, ie := interpreter.ParsePortionSpecific(text)
					got = r
					if ie != nil {
						err = ie
					}
				})
				w.Eval("long|"+label, true, "long-numeral")
				switch {
				case pmsg != "":
					w.Violation("C13.panic:direct@"+where, "ParsePortionSpecific panicked on a long numeral: "+pmsg, 100, Case{Script: label})
				case err != nil:
					w.Violation("C13.rejected:direct:long", "ParsePortionSpecific rejected a portion text of the literal grammar with value in [0,1]: "+err.Error(), 100, Case{Script: label})
				case got.Cmp(want) != 0:
					w.Violation("C13.value:direct:long", "ParsePortionSpecific gave a wrong value for a long numeral", 100, Case{Script: label})
				}
				out := RunReal(varScript, map[string]string{"p": text, "t": "COIN 840"}, env.New(env.Exact, nil, nil), nil)
				exp := new(big.Rat).Mul(want, big.NewRat(840, 1))
				expA := new(big.Int).Div(exp.Num(), exp.Denom())
				if out.Err != nil || out.Panic != "" {
					w.Violation("C13.rejected:variable:long", "a long portion text was rejected as a portion variable: "+out.Class(), 100, Case{Script: label})
				} else if g := credits(out.Postings)["a"]; g == nil && expA.Sign() != 0 || g != nil && g.Cmp(expA) != 0 && new(big.Int).Sub(g, expA).CmpAbs(big.NewInt(1)) > 0 {
					w.Violation("C13.value:variable:long", "a long portion text used as a portion variable gave a wrong share", 100, Case{Script: label})
				}
				if w.Tier == "thorough" {
					src := "send [COIN 840] ( source = @world destination = { " + text + " to @a remaining to @b } )\n"
					var pr parsedT
					pm, wh := guard(func() { pr = numscriptParse(src) })
					if pm != "" {
						w.Violation("C13.panic:literal@"+wh, "parsing a long portion literal panicked: "+pm, 100, Case{Script: label})
					} else if len(pr.GetParsingErrors()) == 0 {
						o2 := RunReal(pr, nil, env.New(env.Exact, nil, nil), nil)
						if o2.Err != nil || o2.Panic != "" {
							w.Violation("C13.rejected:literal:long", "a long portion literal was rejected: "+o2.Class(), 100, Case{Script: label})
						}
					}
				}
				w.Sample("long", Case{Script: label})
			})
		})
	})

	// (a') a variable keeps the value it was given after it has been an operand: arithmetic on number
	// and monetary variables (either side of + and -), then every variable written to metadata
	w.Stage("operand-reuse", "vars n, nm (numbers in {0,5,-2,-3,2^64,10^29+..,-(2^128-1)}), amt, cod (monetaries in {USD 3, USD 2^64, USD -7}); one statement computing $n+$nm / $nm-$n / $n-$nm / $n+1 / $amt+$cod / $amt-$cod / $cod+$amt (or none), then all four variables written with set_account_meta: the stored text is the value given", func() {
		nums := []string{"0", "5", "-2", "-3", "18446744073709551616", "123456789012345678901234567890", "-340282366920938463463374607431768211455"}
		mons := []string{"USD 3", "USD 18446744073709551616", "USD -7"}
		ops := []string{"", "set_tx_meta ( \"s\" , $n + $nm )", "set_tx_meta ( \"s\" , $nm - $n )", "set_tx_meta ( \"s\" , $n - $nm )", "set_tx_meta ( \"s\" , $n + 1 )",
			"set_tx_meta ( \"s\" , $amt + $cod )", "set_tx_meta ( \"s\" , $amt - $cod )", "set_tx_meta ( \"s\" , $cod + $amt )", "set_tx_meta ( \"s\" , $n + $nm + $n )"}
		w.Outer("operand-reuse/op", 0, func(o *mc.Explorer) {
			op := ops[o.Choose(len(ops))]
			twice := o.Choose(2) == 1
			body := op + "\n"
			if twice {
				body += op + "\n"
			}
			text := "vars { number $n number $nm monetary $amt monetary $cod }\n" + body +
				"set_account_meta ( @acc , \"n\" , $n )\nset_account_meta ( @acc , \"nm\" , $nm )\nset_account_meta ( @acc , \"amt\" , $amt )\nset_account_meta ( @acc , \"cod\" , $cod )\n"
			if !w.Mine(text) {
				return
			}
			w.Owned()
			pr, ok := mustParse(w, text)
			if !ok {
				return
			}
			w.Inner(0, func(in *mc.Explorer) {
				vars := map[string]string{"n": nums[in.Choose(len(nums))], "nm": nums[in.Choose(len(nums))], "amt": mons[in.Choose(len(mons))], "cod": mons[in.Choose(len(mons))]}
				out := RunReal(pr, vars, env.New(env.Exact, nil, nil), nil)
				key := "reuse|" + op + "|" + varsStr(vars)
				c := Case{Script: text, Vars: vars}
				if out.Panic != "" {
					w.Eval(key, true, "reuse:panic")
					c.Observed = "panic: " + out.Panic
					w.Violation("C13.panic:operand-reuse@"+out.Where, "arithmetic on variables panicked: "+out.Panic, len(text), c)
					return
				}
				if out.Err != nil {
					w.Eval(key, true, "reuse:error")
					c.Observed = "error: " + out.Err.Error()
					w.Violation("C13.rejected:operand-reuse", "a script doing arithmetic on well-typed number / monetary variables failed", len(text), c)
					return
				}
				w.Eval(key, op != "", "reuse:ok")
				for _, k := range []string{"n", "nm", "amt", "cod"} {
					if got := out.AcctMeta["acc"][k]; got != vars[k] {
						c.Observed = fmt.Sprintf("$%s was given %q and written to metadata as %q", k, vars[k], got)
						w.Violation("C13.value:operand-reuse", "a variable no longer holds the value it was given after it has been an operand of + or -", len(text), c)
						return
					}
				}
				if op != "" {
					w.Sample("reuse", Case{Script: text, Vars: vars, Observed: "all four variables written back unchanged"})
				}
			})
		})
	})

	// (b) metadata round trip
	type tv struct{ typ, lit, text string }
	var vals []tv
	for _, a := range []string{"a", "a:b", "a-b_c:0", "world", "A1:b2"} {
		vals = append(vals, tv{"account", "@" + a, a})
	}
	for _, a := range []string{"USD", "EUR/2", "A", "0", "/", "COIN1"} {
		vals = append(vals, tv{"asset", a, a})
	}
	for _, s := range []string{"", "k", "hello world", "héllo €", "a\\\"b", "  ", "1/2", "USD 5"} {
		vals = append(vals, tv{"string", "\"" + s + "\"", s})
	}
	hs := H.String()
	for _, n := range []string{"0", "1", "-1", "007", "-0"} {
		vals = append(vals, tv{"number", n, n})
	}
	for _, p := range []string{"1/2", "0/5", "7/7", "50%", "0.5%", "2/4", "100%", "1 / 3"} {
		vals = append(vals, tv{"portion", p, p})
	}
	for _, m := range [][2]string{{"USD", "0"}, {"USD", "1"}, {"EUR/2", "-1"}, {"COIN", "12"}} {
		vals = append(vals, tv{"monetary", "[" + m[0] + " " + m[1] + "]", m[0] + " " + m[1]})
	}
	// huge numbers enter through variables (a literal beyond int64 is C14's subject)
	type hv struct{ typ, raw string }
	huge := []hv{{"number", "9223372036854775807"}, {"number", "9223372036854775808"}, {"number", "18446744073709551615"}, {"number", "18446744073709551616"}, {"number", "-9223372036854775808"}, {"number", "-9223372036854775809"}, {"monetary", "USD 9223372036854775808"}, {"monetary", "USD 18446744073709551616"}, {"number", hs}, {"number", "-" + hs}, {"monetary", "USD " + hs}, {"monetary", "USD -" + hs}, {"portion", hs + "/" + new(big.Int).Mul(H, big.NewInt(3)).String()}}
	w.Stage("roundtrip", fmt.Sprintf("%d literal values + %d huge values of the six types: set_account_meta -> store metadata -> meta() variable of the same type -> set_tx_meta", len(vals), len(huge)), func() {
		w.Outer("roundtrip/value", 0, func(o *mc.Explorer) {
			i := o.Choose(len(vals) + len(huge))
			if !w.Mine(fmt.Sprint("rt", i)) {
				return
			}
			w.Owned()
			var typ, first string
			var vars map[string]string
			if i < len(vals) {
				typ = vals[i].typ
				first = "set_account_meta ( @acc , \"k\" , " + vals[i].lit + " )\nset_tx_meta ( \"k\" , " + vals[i].lit + " )\n"
			} else {
				h := huge[i-len(vals)]
				typ = h.typ
				first = "vars { " + typ + " $x }\nset_account_meta ( @acc , \"k\" , $x )\nset_tx_meta ( \"k\" , $x )\n"
				vars = map[string]string{"x": h.raw}
			}
			w.Inner(0, func(in *mc.Explorer) {
				key := "roundtrip|" + first + varsStr(vars)
				c := Case{Script: first, Vars: vars}
				pr1, ok := parseQuiet(first)
				if !ok {
					w.Eval(key, true, "first-script-unparsable")
					w.Violation("C13.roundtrip-parse", "a script writing a literal value to metadata did not parse", len(first), c)
					return
				}
				o1 := RunReal(pr1, vars, env.New(env.Exact, nil, nil), nil)
				if o1.Err != nil || o1.Panic != "" {
					w.Eval(key, true, "first-script-failed:"+o1.Class())
					c.Observed = o1.Class() + " " + o1.Panic
					if o1.Err != nil {
						c.Observed += o1.Err.Error()
					}
					w.Violation("C13.roundtrip-write:"+typ, "writing a value of type "+typ+" to metadata failed", len(first), c)
					return
				}
				stored, has := o1.AcctMeta["acc"]["k"]
				if !has {
					w.Eval(key, true, "nothing-stored")
					w.Violation("C13.roundtrip-write:"+typ, "set_account_meta stored nothing", len(first), c)
					return
				}
				// tx metadata JSON unquotes to the same text
				var unq string
				if err := json.Unmarshal([]byte(o1.TxJSON["k"]), &unq); err != nil || unq != stored {
					c.Observed = "account metadata text " + fmt.Sprintf("%q", stored) + ", tx metadata JSON " + o1.TxJSON["k"]
					w.Violation("C13.tx-json:"+typ, "transaction metadata does not serialise to the text stored in account metadata", len(first), c)
				}
				second := "vars { " + typ + " $v = meta ( @acc , \"k\" ) }\nset_account_meta ( @acc , \"k\" , $v )\nset_tx_meta ( \"k\" , $v )\n"
				pr2, _ := parseQuiet(second)
				o2 := RunReal(pr2, nil, env.New(env.Exact, nil, env.Meta{"acc": {"k": stored}}), nil)
				w.Eval(key, true, "roundtrip:"+typ+":"+o2.Class())
				c.Extra = map[string]any{"stored_text": stored, "second_script": second}
				if o2.Err != nil || o2.Panic != "" {
					c.Observed = o2.Class() + " " + o2.Panic
					if o2.Err != nil {
						c.Observed += o2.Err.Error()
					}
					w.Violation("C13.roundtrip-read:"+typ+":"+o2.Class(), "the text stored by set_account_meta cannot be read back as a "+typ, len(first), c)
					return
				}
				if o2.AcctMeta["acc"]["k"] != stored || o2.TxJSON["k"] != o1.TxJSON["k"] {
					c.Observed = fmt.Sprintf("read back and re-rendered: %q (tx %s); originally %q (tx %s)", o2.AcctMeta["acc"]["k"], o2.TxJSON["k"], stored, o1.TxJSON["k"])
					w.Violation("C13.roundtrip-value:"+typ, "the value read back from metadata differs from the value written", len(first), c)
					return
				}
				// and as a plain variable of the same type
				third := "vars { " + typ + " $v }\nset_tx_meta ( \"k\" , $v )\n"
				pr3, _ := parseQuiet(third)
				o3 := RunReal(pr3, map[string]string{"v": stored}, env.New(env.Exact, nil, nil), nil)
				if o3.Err != nil || o3.Panic != "" || o3.TxJSON["k"] != o1.TxJSON["k"] {
					c.Observed = "plain variable route: " + o3.Class() + " " + o3.TxJSON["k"]
					w.Violation("C13.roundtrip-plainvar:"+typ, "the stored text passed as a plain variable does not yield the value written", len(first), c)
					return
				}
				w.Sample("roundtrip:"+typ, c)
			})
		})
	})

	// several entries at once: (account, key) pairs that collide under a naive joined key, read back
	// through several meta() variables of one vars block, in both declaration orders
	w.Stage("roundtrip-pairs", "4 (account, key) pairs that collide when joined with ':' ((u:1, k), (u, 1:k), (u, k), (u:1, 1:k)), written with distinct numbers by one script and read back by a second one through 2..4 meta() variables in every declaration order", func() {
		pairs := [][2]string{{"u:1", "k"}, {"u", "1:k"}, {"u", "k"}, {"u:1", "1:k"}}
		w.Outer("roundtrip-pairs/order", 0, func(o *mc.Explorer) {
			// an ordered selection of 2..4 distinct pairs
			n := 2 + o.Choose(3)
			var sel []int
			used := map[int]bool{}
			for len(sel) < n {
				i := o.Choose(len(pairs))
				if used[i] {
					return
				}
				used[i] = true
				sel = append(sel, i)
			}
			if !w.Mine(fmt.Sprint("pairs", sel)) {
				return
			}
			w.Owned()
			w.Inner(0, func(in *mc.Explorer) {
				first := ""
				for i, p := range pairs {
					first += fmt.Sprintf("set_account_meta ( @%s , \"%s\" , %d )\n", p[0], p[1], 5+2*i)
				}
				pr1, ok := parseQuiet(first)
				if !ok {
					w.Count("harness_errors", 1)
					return
				}
				o1 := RunReal(pr1, nil, env.New(env.Exact, nil, nil), nil)
				if o1.Err != nil || o1.Panic != "" {
					w.Violation("C13.roundtrip-write:pairs", "writing several metadata entries failed", len(first), Case{Script: first, Observed: o1.Class()})
					return
				}
				meta := env.Meta{}
				for a, m := range o1.AcctMeta {
					meta[a] = map[string]string{}
					for k, v := range m {
						meta[a][k] = v
					}
				}
				second := "vars {"
				for j, i := range sel {
					second += fmt.Sprintf(" number $v%d = meta ( @%s , \"%s\" )", j, pairs[i][0], pairs[i][1])
				}
				second += " }\n"
				for j := range sel {
					second += fmt.Sprintf("set_tx_meta ( \"r%d\" , $v%d )\n", j, j)
				}
				pr2, ok := parseQuiet(second)
				if !ok {
					w.Count("harness_errors", 1)
					return
				}
				o2 := RunReal(pr2, nil, env.New(env.Exact, nil, meta), nil)
				key := "pairs|" + second
				w.Eval(key, true, "pairs:"+o2.Class())
				c := Case{Script: second, Meta: meta, Extra: map[string]any{"first_script": first}}
				if o2.Err != nil || o2.Panic != "" {
					c.Observed = o2.Class()
					w.Violation("C13.roundtrip-read:pairs", "entries written by one script cannot be read back together by another", len(second), c)
					return
				}
				for j, i := range sel {
					want := fmt.Sprint(5 + 2*i)
					if o2.TxMeta[fmt.Sprintf("r%d", j)] != want {
						c.Observed = fmt.Sprintf("$v%d = meta(@%s, %q) read %s, written %s", j, pairs[i][0], pairs[i][1], o2.TxMeta[fmt.Sprintf("r%d", j)], want)
						w.Violation("C13.roundtrip-value:pairs", "a metadata entry read back next to others is not the value written under that account and key", len(second), c)
						return
					}
				}
				w.Sample("pairs", c)
			})
		})
	})
}
